/-
  Proofs/Peaks_Plateau.lean — loop invariant of `plateausGo` (helper for Proofs/Peaks.lean)
-/
import Coma.Peaks
namespace Coma.Proofs.Peaks
open Coma

/-- same body as `Coma.Proofs.IsPlateau` (Proofs/Peaks.lean) -/
def IsPl (x : List Int) (l r : Nat) : Prop :=
  1 ≤ l ∧ l ≤ r ∧ r + 1 < x.length ∧
  (∀ i, l ≤ i → i ≤ r → x[i]? = x[l]?) ∧
  (∃ a v b, x[l - 1]? = some a ∧ x[l]? = some v ∧ x[r + 1]? = some b ∧ a < v ∧ b < v)

theorem drop_cons_info {x : List Int} {i : Nat} {y : Int} {xs : List Int} (h : x.drop i = y :: xs) :
    x[i]? = some y ∧ x.drop (i + 1) = xs := by
  constructor
  · have := congrArg (·[0]?) h
    simpa [List.getElem?_drop] using this
  · have := congrArg (List.drop 1) h
    simpa [List.drop_drop] using this

/-- the state of the scan before sample `i` -/
def PInv (x : List Int) (i : Nat) (prev : Int) : Option Nat → Prop
  | some l => 1 ≤ l ∧ l < i ∧ (∀ j, l ≤ j → j < i → x[j]? = some prev) ∧ ∃ a, x[l - 1]? = some a ∧ a < prev
  | none   => ∃ s, s < i ∧ (∀ j, s ≤ j → j < i → x[j]? = some prev) ∧ (s = 0 ∨ ∃ a, x[s - 1]? = some a ∧ prev < a)

theorem PInv_prev {x : List Int} {i : Nat} {prev : Int} {cand : Option Nat} (h : PInv x i prev cand) :
    1 ≤ i ∧ x[i - 1]? = some prev := by
  cases cand with
  | some l =>
    obtain ⟨h1, h2, h3, _⟩ := h
    exact ⟨by omega, h3 (i - 1) (by omega) (by omega)⟩
  | none =>
    obtain ⟨s, h2, h3, _⟩ := h
    exact ⟨by omega, h3 (i - 1) (by omega) (by omega)⟩

/-- a plateau whose right edge is `i - 1` is followed by a fall -/
theorem pl_end_fall {x : List Int} {i l r : Nat} {prev y : Int} (hp : IsPl x l r) (hr : r + 1 = i)
    (hprev : x[i - 1]? = some prev) (hy : x[i]? = some y) : y < prev := by
  obtain ⟨h1, h2, h3, h4, a, v, b, ha, hv, hb, hav, hbv⟩ := hp
  have e := h4 r h2 (Nat.le_refl _)
  have e1 : i - 1 = r := by omega
  rw [e1, e, hv] at hprev
  rw [← hr, hb] at hy
  cases hprev; cases hy; exact hbv

theorem pl_all_prev {x : List Int} {i l r : Nat} {prev : Int} (hp : IsPl x l r) (hr : r + 1 = i)
    (hprev : x[i - 1]? = some prev) :
    (∀ j, l ≤ j → j < i → x[j]? = some prev) ∧ ∃ a, x[l - 1]? = some a ∧ a < prev := by
  obtain ⟨h1, h2, h3, h4, a, v, b, ha, hv, hb, hav, hbv⟩ := hp
  have e := h4 r h2 (Nat.le_refl _)
  have e1 : i - 1 = r := by omega
  rw [e1, e, hv] at hprev
  cases hprev
  refine ⟨fun j hj1 hj2 => ?_, a, ha, hav⟩
  rw [h4 j hj1 (by omega), hv]

theorem pl_some_eq {x : List Int} {i l r l0 : Nat} {prev : Int} (hp : IsPl x l r) (hr : r + 1 = i)
    (hinv : PInv x i prev (some l0)) : l = l0 := by
  obtain ⟨hall, a, ha, hav⟩ := pl_all_prev hp hr (PInv_prev hinv).2
  obtain ⟨g1, g2, g3, a', ha', hav'⟩ := hinv
  have hl1 := hp.1
  have hl2 := hp.2.1
  rcases Nat.lt_trichotomy l l0 with h | h | h
  · have := hall (l0 - 1) (by omega) (by omega)
    rw [this] at ha'; cases ha'; omega
  · exact h
  · have := g3 (l - 1) (by omega) (by omega)
    rw [this] at ha; cases ha; omega

theorem pl_none_false {x : List Int} {i l r : Nat} {prev : Int} (hp : IsPl x l r) (hr : r + 1 = i)
    (hinv : PInv x i prev none) : False := by
  obtain ⟨hall, a, ha, hav⟩ := pl_all_prev hp hr (PInv_prev hinv).2
  obtain ⟨s, g2, g3, g4⟩ := hinv
  have hl1 := hp.1
  have hl2 := hp.2.1
  by_cases h : s < l
  · have := g3 (l - 1) (by omega) (by omega)
    rw [this] at ha; cases ha; omega
  · rcases g4 with g4 | ⟨a', ha', hav'⟩
    · omega
    · by_cases h' : l = s
      · subst h'; rw [ha] at ha'; cases ha'; omega
      · have := hall (s - 1) (by omega) (by omega)
        rw [this] at ha'; cases ha'; omega

theorem pl_of_some {x : List Int} {i l0 : Nat} {prev y : Int} (hinv : PInv x i prev (some l0))
    (hy : x[i]? = some y) (hlt : y < prev) : IsPl x l0 (i - 1) := by
  obtain ⟨g1, g2, g3, a, ha, hav⟩ := hinv
  have hi : i < x.length := by
    rcases Nat.lt_or_ge i x.length with h | h
    · exact h
    · rw [List.getElem?_eq_none h] at hy; cases hy
  refine ⟨g1, by omega, by omega, fun j h1 h2 => ?_, a, prev, y, ha, g3 l0 (Nat.le_refl _) g2, ?_, hav, hlt⟩
  · rw [g3 j h1 (by omega), g3 l0 (Nat.le_refl _) g2]
  · have : i - 1 + 1 = i := by omega
    rw [this]; exact hy

theorem plateausGo_iff (x : List Int) : ∀ (xs : List Int) (i : Nat) (prev : Int) (cand : Option Nat),
    x.drop i = xs → PInv x i prev cand →
    ∀ l r, (l, r) ∈ plateausGo i prev cand xs ↔ IsPl x l r ∧ i ≤ r + 1 := by
  intro xs
  induction xs with
  | nil =>
    intro i prev cand hd _ l r
    have hlen : x.length ≤ i := by simpa using hd
    simp only [plateausGo, List.not_mem_nil, false_iff]
    rintro ⟨hp, hi⟩
    have := hp.2.2.1
    omega
  | cons y ys ih =>
    intro i prev cand hd hinv l r
    obtain ⟨hy, hd'⟩ := drop_cons_info hd
    obtain ⟨hi1, hprev⟩ := PInv_prev hinv
    have hnoteq : ∀ {l r}, IsPl x l r → r + 1 = i → y < prev := fun hp hr => pl_end_fall hp hr hprev hy
    unfold plateausGo
    by_cases h1 : prev < y
    · rw [if_pos h1]
      have hinv' : PInv x (i + 1) y (some i) := by
        refine ⟨hi1, Nat.lt_succ_self _, fun j hj1 hj2 => ?_, prev, hprev, h1⟩
        have : j = i := by omega
        subst this; exact hy
      rw [ih (i + 1) y (some i) hd' hinv' l r]
      constructor
      · rintro ⟨hp, hr⟩; exact ⟨hp, by omega⟩
      · rintro ⟨hp, hr⟩
        refine ⟨hp, ?_⟩
        by_cases he : r + 1 = i
        · have := hnoteq hp he; omega
        · omega
    · rw [if_neg h1]
      by_cases h2 : y = prev
      · rw [if_pos h2]
        subst h2
        have hinv' : PInv x (i + 1) y cand := by
          cases cand with
          | some l0 =>
            obtain ⟨g1, g2, g3, g4⟩ := hinv
            refine ⟨g1, by omega, fun j hj1 hj2 => ?_, g4⟩
            by_cases hj : j = i
            · subst hj; exact hy
            · exact g3 j hj1 (by omega)
          | none =>
            obtain ⟨s, g2, g3, g4⟩ := hinv
            refine ⟨s, by omega, fun j hj1 hj2 => ?_, g4⟩
            by_cases hj : j = i
            · subst hj; exact hy
            · exact g3 j hj1 (by omega)
        rw [ih (i + 1) y cand hd' hinv' l r]
        constructor
        · rintro ⟨hp, hr⟩; exact ⟨hp, by omega⟩
        · rintro ⟨hp, hr⟩
          refine ⟨hp, ?_⟩
          by_cases he : r + 1 = i
          · have := hnoteq hp he; omega
          · omega
      · rw [if_neg h2]
        have hlt : y < prev := by omega
        have hinv' : PInv x (i + 1) y none := by
          refine ⟨i, Nat.lt_succ_self _, fun j hj1 hj2 => ?_, Or.inr ⟨prev, hprev, hlt⟩⟩
          have : j = i := by omega
          subst this; exact hy
        cases cand with
        | some l0 =>
          simp only [List.mem_cons, Prod.mk.injEq]
          rw [ih (i + 1) y none hd' hinv' l r]
          constructor
          · rintro (⟨rfl, rfl⟩ | ⟨hp, hr⟩)
            · exact ⟨pl_of_some hinv hy hlt, by omega⟩
            · exact ⟨hp, by omega⟩
          · rintro ⟨hp, hr⟩
            by_cases he : r + 1 = i
            · left
              exact ⟨pl_some_eq hp he hinv, by omega⟩
            · right; exact ⟨hp, by omega⟩
        | none =>
          simp only []
          rw [ih (i + 1) y none hd' hinv' l r]
          constructor
          · rintro ⟨hp, hr⟩; exact ⟨hp, by omega⟩
          · rintro ⟨hp, hr⟩
            refine ⟨hp, ?_⟩
            by_cases he : r + 1 = i
            · exact (pl_none_false hp he hinv).elim
            · omega

theorem plateaus_iff' (x : List Int) (l r : Nat) : (l, r) ∈ plateaus x ↔ IsPl x l r := by
  cases x with
  | nil =>
    simp only [plateaus, List.not_mem_nil, false_iff]
    intro hp
    have := hp.2.2.1
    simp at this
  | cons y ys =>
    unfold plateaus
    have hinv : PInv (y :: ys) 1 y none :=
      ⟨0, Nat.lt_succ_self _, fun j _ hj => by
        have : j = 0 := by omega
        subst this; rfl, Or.inl rfl⟩
    rw [plateausGo_iff (y :: ys) ys 1 y none rfl hinv l r]
    constructor
    · exact fun h => h.1
    · intro hp; exact ⟨hp, by have := hp.1; have := hp.2.1; omega⟩

/-! ### order of the output -/

theorem plateausGo_lb : ∀ (xs : List Int) (i : Nat) (prev : Int) (cand : Option Nat) (lb : Nat),
    lb ≤ i → (∀ l0, cand = some l0 → lb ≤ l0) → ∀ p ∈ plateausGo i prev cand xs, lb ≤ p.1 := by
  intro xs
  induction xs with
  | nil => intro i prev cand lb _ _ p hp; simp [plateausGo] at hp
  | cons y ys ih =>
    intro i prev cand lb hlb hc p hp
    unfold plateausGo at hp
    by_cases h1 : prev < y
    · rw [if_pos h1] at hp
      exact ih (i + 1) y (some i) lb (by omega) (fun l0 h => by cases h; exact hlb) p hp
    · rw [if_neg h1] at hp
      by_cases h2 : y = prev
      · rw [if_pos h2] at hp
        exact ih (i + 1) y cand lb (by omega) hc p hp
      · rw [if_neg h2] at hp
        cases cand with
        | some l0 =>
          simp only [List.mem_cons] at hp
          rcases hp with rfl | hp
          · exact hc l0 rfl
          · exact ih (i + 1) y none lb (by omega) (fun l0 h => by cases h) p hp
        | none =>
          exact ih (i + 1) y none lb (by omega) (fun l0 h => by cases h) p hp

theorem plateausGo_sorted : ∀ (xs : List Int) (i : Nat) (prev : Int) (cand : Option Nat), 1 ≤ i →
    (plateausGo i prev cand xs).Pairwise (fun a b => a.2 + 1 < b.1) := by
  intro xs
  induction xs with
  | nil => intro i prev cand _; simp [plateausGo]
  | cons y ys ih =>
    intro i prev cand hi
    unfold plateausGo
    by_cases h1 : prev < y
    · rw [if_pos h1]; exact ih _ _ _ (by omega)
    · rw [if_neg h1]
      by_cases h2 : y = prev
      · rw [if_pos h2]; exact ih _ _ _ (by omega)
      · rw [if_neg h2]
        cases cand with
        | some l0 =>
          simp only [List.pairwise_cons]
          refine ⟨fun p hp => ?_, ih _ _ _ (by omega)⟩
          have := plateausGo_lb ys (i + 1) y none (i + 1) (Nat.le_refl _) (fun l0 h => by cases h) p hp
          show i - 1 + 1 < p.1
          omega
        | none => exact ih _ _ _ (by omega)

theorem plateaus_sorted' (x : List Int) : (plateaus x).Pairwise (fun a b => a.2 + 1 < b.1) := by
  cases x with
  | nil => simp [plateaus]
  | cons y ys => exact plateausGo_sorted ys 1 y none (Nat.le_refl _)

end Coma.Proofs.Peaks
