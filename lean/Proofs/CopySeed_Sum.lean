/-
  Proofs/CopySeed_Sum.lean — finite sums over `x < n` of functions `Nat → Nat` (helper for Proofs/CopySeed.lean):
  congruence, swapping a double sum, monotonicity, counting an interval.
-/
namespace Coma.Proofs.CopySeed

/-- `Σ_{x < n} f x` -/
def sumTo (f : Nat → Nat) : Nat → Nat
  | 0     => 0
  | n + 1 => sumTo f n + f n

theorem sumTo_congr (f g : Nat → Nat) (n : Nat) (h : ∀ x, x < n → f x = g x) : sumTo f n = sumTo g n := by
  induction n with
  | zero => rfl
  | succ n ih =>
    simp only [sumTo]
    rw [ih (fun x hx => h x (by omega)), h n (by omega)]

theorem sumTo_zero (f : Nat → Nat) (n : Nat) (h : ∀ x, x < n → f x = 0) : sumTo f n = 0 := by
  induction n with
  | zero => rfl
  | succ n ih =>
    simp only [sumTo]
    rw [ih (fun x hx => h x (by omega)), h n (by omega)]

theorem sumTo_single (f : Nat → Nat) (n j0 : Nat) (hj : j0 < n) (h : ∀ j, j < n → j ≠ j0 → f j = 0) :
    sumTo f n = f j0 := by
  induction n with
  | zero => omega
  | succ n ih =>
    simp only [sumTo]
    by_cases hn : j0 = n
    · subst hn
      rw [sumTo_zero f j0 (fun x hx => h x (by omega) (by omega))]
      omega
    · rw [ih (by omega) (fun j hj' hne => h j (by omega) hne), h n (by omega) (by omega)]
      omega

theorem sumTo_add (f g : Nat → Nat) (n : Nat) : sumTo (fun x => f x + g x) n = sumTo f n + sumTo g n := by
  induction n with
  | zero => rfl
  | succ n ih => simp only [sumTo]; rw [ih]; omega

theorem sumTo_shift (f : Nat → Nat) (n : Nat) : sumTo f (n + 1) = f 0 + sumTo (fun x => f (x + 1)) n := by
  induction n with
  | zero => simp [sumTo]
  | succ n ih =>
    rw [sumTo, ih]
    simp only [sumTo]
    omega

theorem sumTo_swap (h : Nat → Nat → Nat) (n L : Nat) :
    sumTo (fun x => sumTo (fun j => h j x) n) L = sumTo (fun j => sumTo (fun x => h j x) L) n := by
  induction L with
  | zero =>
    simp only [sumTo]
    exact (sumTo_zero _ n (fun _ _ => rfl)).symm
  | succ L ih =>
    simp only [sumTo]
    rw [ih, ← sumTo_add]

theorem sumTo_le (f g : Nat → Nat) (n : Nat) (h : ∀ x, x < n → f x ≤ g x) : sumTo f n ≤ sumTo g n := by
  induction n with
  | zero => exact Nat.le_refl _
  | succ n ih =>
    simp only [sumTo]
    have := ih (fun x hx => h x (by omega))
    have := h n (by omega)
    omega

theorem sumTo_const (c n : Nat) : sumTo (fun _ => c) n = n * c := by
  induction n with
  | zero => simp [sumTo]
  | succ n ih => simp only [sumTo]; rw [ih, Nat.succ_mul]

/-- number of `x < L` in the interval `[lo, hi]` -/
theorem cnt_eq (lo hi L : Nat) :
    sumTo (fun x => if lo ≤ x ∧ x ≤ hi then 1 else 0) L = min (hi + 1) L - lo := by
  induction L with
  | zero => simp [sumTo]
  | succ L ih =>
    simp only [sumTo]
    rw [ih]
    split <;> omega

theorem sumTo_ge_one (n : Nat) : sumTo (fun j => if 1 ≤ j then 1 else 0) n = n - 1 := by
  induction n with
  | zero => rfl
  | succ n ih =>
    simp only [sumTo]
    rw [ih]
    split <;> omega

theorem sumTo_lt_last (N n : Nat) (h : n ≤ N) : sumTo (fun j => if j + 1 < N then 1 else 0) n = min n (N - 1) := by
  induction n with
  | zero => simp [sumTo]
  | succ n ih =>
    simp only [sumTo]
    rw [ih (by omega)]
    split <;> omega

end Coma.Proofs.CopySeed
