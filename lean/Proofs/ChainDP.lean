import Props.Defs
import Mathlib.Tactic.Linarith
import Mathlib.Algebra.Order.Field.Rat
namespace Coma.Proofs
open Coma Coma.Spec

section DP
variable {α : Type _} (score : α → Rat) (join : α → α → Option Rat)

/-! ### chainTotal / Consec / leOpt -/

theorem chainTotal_cons_cons (a b : α) (t : List α) :
    chainTotal score join (a :: b :: t) =
      match join a b, chainTotal score join (b :: t) with
      | some j, some r => some (score a + j + r)
      | _, _ => none := by
  rw [chainTotal]
  rfl

theorem chainTotal_snoc (c : List α) (y x : α) :
    chainTotal score join (c ++ [y, x]) =
      match chainTotal score join (c ++ [y]), join y x with
      | some t, some j => some (t + j + score x)
      | _, _ => none := by
  induction c with
  | nil =>
    simp only [List.nil_append]
    rw [chainTotal_cons_cons]
    simp only [chainTotal]
    cases join y x <;> simp
  | cons a c ih =>
    cases c with
    | nil =>
      simp only [List.cons_append, List.nil_append] at ih ⊢
      rw [chainTotal_cons_cons, ih, chainTotal_cons_cons]
      simp only [chainTotal]
      cases join a y <;> cases join y x <;> simp [add_assoc]
    | cons b t =>
      simp only [List.cons_append] at ih ⊢
      rw [chainTotal_cons_cons, ih, chainTotal_cons_cons]
      cases join a b <;> cases chainTotal score join (b :: (t ++ [y])) <;> cases join y x <;>
        simp [add_assoc]

theorem chainTotal_some_consec : ∀ (l : List α) (v : Rat), chainTotal score join l = some v →
    Consec (fun a b => join a b ≠ none) l
  | [], _, _ => trivial
  | [_], _, _ => trivial
  | a :: b :: t, v, h => by
    rw [chainTotal_cons_cons] at h
    cases hj : join a b with
    | none => simp [hj] at h
    | some j =>
      cases hr : chainTotal score join (b :: t) with
      | none => simp [hj, hr] at h
      | some r =>
        exact ⟨by simp [hj], chainTotal_some_consec (b :: t) r hr⟩

theorem leOpt_mono {x : Option Rat} {a b : Rat} (h : leOpt x a) (hab : a ≤ b) : leOpt x b := by
  cases x with
  | none => trivial
  | some v => exact le_trans (show v ≤ a from h) hab

theorem sublist_snoc_split {c : List α} {y : α} {l : List α} (h : (c ++ [y]).Sublist l) :
    ∃ k, l[k]? = some y ∧ c.Sublist (l.take k) := by
  rw [List.append_sublist_iff] at h
  obtain ⟨r₁, r₂, rfl, h1, h2⟩ := h
  have hy : y ∈ r₂ := by simpa using h2
  obtain ⟨s, t, rfl⟩ := List.append_of_mem hy
  refine ⟨(r₁ ++ s).length, ?_, ?_⟩
  · rw [← List.append_assoc]; simp
  · rw [← List.append_assoc, List.take_left' rfl]
    exact h1.trans (List.sublist_append_left _ _)

/-! ### bestPrev -/

theorem bestPrev_spec (cur : α) : ∀ (rows : List (α × Rat)) (acc : Rat) (ai : Option Nat) (j : Nat),
    acc ≤ (bestPrev join cur acc ai j rows).1 ∧
    (∀ (k : Nat) p c jn, rows[k]? = some (p, c) → join p cur = some jn →
        c + jn ≤ (bestPrev join cur acc ai j rows).1) ∧
    (((bestPrev join cur acc ai j rows).1 = acc ∧ (bestPrev join cur acc ai j rows).2 = ai) ∨
      ∃ (k : Nat) (p : α) (c jn : Rat), rows[k]? = some (p, c) ∧ join p cur = some jn ∧
        (bestPrev join cur acc ai j rows).1 = c + jn ∧
        (bestPrev join cur acc ai j rows).2 = some (j + k)) := by
  intro rows
  induction rows with
  | nil => intro acc ai j; simp [bestPrev]
  | cons pc rest ih =>
    obtain ⟨p, c⟩ := pc
    intro acc ai j
    cases hj : join p cur with
    | none =>
      have e : bestPrev join cur acc ai j ((p, c) :: rest) = bestPrev join cur acc ai (j + 1) rest := by
        simp [bestPrev, hj]
      rw [e]
      obtain ⟨h1, h2, h3⟩ := ih acc ai (j + 1)
      refine ⟨h1, ?_, ?_⟩
      · intro k p' c' jn hk hjn
        cases k with
        | zero => simp at hk; obtain ⟨rfl, rfl⟩ := hk; simp [hj] at hjn
        | succ k => exact h2 k p' c' jn (by simpa using hk) hjn
      · rcases h3 with h3 | ⟨k, p', c', jn, hk, hjn, hv, hi⟩
        · exact Or.inl h3
        · exact Or.inr ⟨k + 1, p', c', jn, by simpa using hk, hjn, hv, by rw [hi]; congr 1; omega⟩
    | some jn0 =>
      by_cases hgt : c + jn0 > acc
      · have e : bestPrev join cur acc ai j ((p, c) :: rest) =
            bestPrev join cur (c + jn0) (some j) (j + 1) rest := by
          simp [bestPrev, hj, hgt]
        rw [e]
        obtain ⟨h1, h2, h3⟩ := ih (c + jn0) (some j) (j + 1)
        refine ⟨le_trans (le_of_lt hgt) h1, ?_, ?_⟩
        · intro k p' c' jn hk hjn
          cases k with
          | zero =>
            simp at hk; obtain ⟨rfl, rfl⟩ := hk
            rw [hj] at hjn; cases hjn; exact h1
          | succ k => exact h2 k p' c' jn (by simpa using hk) hjn
        · rcases h3 with ⟨hv, hi⟩ | ⟨k, p', c', jn, hk, hjn, hv, hi⟩
          · exact Or.inr ⟨0, p, c, jn0, by simp, hj, hv, by simpa using hi⟩
          · exact Or.inr ⟨k + 1, p', c', jn, by simpa using hk, hjn, hv, by rw [hi]; congr 1; omega⟩
      · have e : bestPrev join cur acc ai j ((p, c) :: rest) =
            bestPrev join cur acc ai (j + 1) rest := by
          simp [bestPrev, hj, hgt]
        rw [e]
        obtain ⟨h1, h2, h3⟩ := ih acc ai (j + 1)
        refine ⟨h1, ?_, ?_⟩
        · intro k p' c' jn hk hjn
          cases k with
          | zero =>
            simp at hk; obtain ⟨rfl, rfl⟩ := hk
            rw [hj] at hjn; cases hjn; exact le_trans (not_lt.mp hgt) h1
          | succ k => exact h2 k p' c' jn (by simpa using hk) hjn
        · rcases h3 with h3 | ⟨k, p', c', jn, hk, hjn, hv, hi⟩
          · exact Or.inl h3
          · exact Or.inr ⟨k + 1, p', c', jn, by simpa using hk, hjn, hv, by rw [hi]; congr 1; omega⟩

/-! ### table invariant -/

/-- the `prev` link of row `i` is justified by an earlier row -/
def RowA (tbl : List (α × Rat × Option Nat)) (i : Nat) (x : α) (c : Rat) : Option Nat → Prop
  | none => c = score x
  | some j => j < i ∧ ∃ (y : α) (cj : Rat) (pj : Option Nat) (jn : Rat),
      tbl[j]? = some (y, cj, pj) ∧ join y x = some jn ∧ c = cj + jn + score x

/-- `c` bounds every chain that ends with item `x` at index `i` -/
def RowB (items : List α) (i : Nat) (x : α) (c : Rat) : Prop :=
  ∀ c' : List α, c'.Sublist (items.take i) → leOpt (chainTotal score join (c' ++ [x])) c

def Good (tbl : List (α × Rat × Option Nat)) : Prop :=
  ∀ (i : Nat) (x : α) (c : Rat) (p : Option Nat), tbl[i]? = some (x, c, p) →
    RowA score join tbl i x c p ∧ RowB score join (tbl.map (·.1)) i x c

theorem dpTable_cons (done : List (α × Rat × Option Nat)) (x : α) (xs : List α) :
    dpTable score join done (x :: xs) =
      dpTable score join (done ++ [(x,
        (bestPrev join x 0 none 0 (done.map fun t => (t.1, t.2.1))).1 + score x,
        (bestPrev join x 0 none 0 (done.map fun t => (t.1, t.2.1))).2)]) xs := rfl

theorem good_step (done : List (α × Rat × Option Nat)) (x : α) (hg : Good score join done) :
    Good score join (done ++ [(x,
        (bestPrev join x 0 none 0 (done.map fun t => (t.1, t.2.1))).1 + score x,
        (bestPrev join x 0 none 0 (done.map fun t => (t.1, t.2.1))).2)]) := by
  obtain ⟨hb0, hbub, hbwit⟩ := bestPrev_spec join x (done.map fun t => (t.1, t.2.1)) 0 none 0
  generalize (bestPrev join x 0 none 0 (done.map fun t => (t.1, t.2.1))) = r at *
  obtain ⟨b, bi⟩ := r
  simp only at hb0 hbub hbwit ⊢
  intro i x' c p h
  by_cases hi : i < done.length
  · rw [List.getElem?_append_left hi] at h
    obtain ⟨ha, hb⟩ := hg i x' c p h
    constructor
    · cases p with
      | none => exact ha
      | some j =>
        obtain ⟨hji, y, cj, pj, jn, hj, hjn, hc⟩ := ha
        refine ⟨hji, y, cj, pj, jn, ?_, hjn, hc⟩
        rw [List.getElem?_append_left (by omega)]; exact hj
    · intro c' hc'
      apply hb
      rw [List.map_append, List.take_append_of_le_length (by simp; omega)] at hc'
      exact hc'
  · have hlen : i < (done ++ [(x, b + score x, bi)]).length := by
      obtain ⟨hlt, _⟩ := List.getElem?_eq_some_iff.mp h
      exact hlt
    have hi' : i = done.length := by simp at hlen; omega
    subst hi'
    rw [List.getElem?_append_right (Nat.le_refl _)] at h
    simp at h
    obtain ⟨rfl, rfl, rfl⟩ := h
    constructor
    · rcases hbwit with ⟨rfl, rfl⟩ | ⟨k, y, cj, jn, hk, hjn, rfl, rfl⟩
      · show _ = _
        simp
      · rw [List.getElem?_map] at hk
        cases hd : done[k]? with
        | none => simp [hd] at hk
        | some row =>
          obtain ⟨y', cj', pj⟩ := row
          simp [hd] at hk
          obtain ⟨rfl, rfl⟩ := hk
          have hkl : k < done.length := (List.getElem?_eq_some_iff.mp hd).1
          refine ⟨by omega, y', cj', pj, jn, ?_, hjn, rfl⟩
          rw [Nat.zero_add, List.getElem?_append_left hkl]; exact hd
    · intro c' hc'
      rw [List.map_append, List.take_left' (by simp)] at hc'
      rcases List.eq_nil_or_concat c' with rfl | ⟨c'', y, rfl⟩
      · show score x ≤ b + score x
        linarith
      · rw [List.concat_eq_append] at hc' ⊢
        obtain ⟨k, hk, hsub⟩ := sublist_snoc_split hc'
        rw [List.getElem?_map] at hk
        cases hd : done[k]? with
        | none => simp [hd] at hk
        | some row =>
          obtain ⟨y', cj, pj⟩ := row
          simp [hd] at hk
          subst hk
          have hB := (hg k y' cj pj hd).2 c'' hsub
          rw [List.append_assoc]
          show leOpt (chainTotal score join (c'' ++ [y', x])) _
          rw [chainTotal_snoc]
          cases ht : chainTotal score join (c'' ++ [y']) with
          | none => trivial
          | some t =>
            rw [ht] at hB
            cases hjn : join y' x with
            | none => trivial
            | some jn =>
              have h1 : cj + jn ≤ b := hbub k y' cj jn (by rw [List.getElem?_map, hd]; rfl) hjn
              have h2 : t ≤ cj := hB
              show t + jn + score x ≤ b + score x
              linarith

theorem good_nil : Good score join ([] : List (α × Rat × Option Nat)) := by
  intro i x c p h; simp at h

theorem dpTable_good : ∀ (xs : List α) (done : List (α × Rat × Option Nat)),
    Good score join done → Good score join (dpTable score join done xs)
  | [], done, hg => by simpa [dpTable] using hg
  | x :: xs, done, hg => by
    rw [dpTable_cons]
    exact dpTable_good xs _ (good_step score join done x hg)

theorem dpTable_items : ∀ (xs : List α) (done : List (α × Rat × Option Nat)),
    (dpTable score join done xs).map (·.1) = done.map (·.1) ++ xs
  | [], done => by simp [dpTable]
  | x :: xs, done => by
    rw [dpTable_cons, dpTable_items xs]
    simp

/-! ### bestIdx -/

theorem bestIdxFrom_spec (l : List Rat) : ∀ (cs pre : List Rat) (best : Rat) (bi i : Nat),
    l = pre ++ cs → i = pre.length → l[bi]? = some best → (∀ v ∈ pre, v ≤ best) →
    ∃ v, l[bestIdxFrom best bi i cs]? = some v ∧ ∀ w ∈ l, w ≤ v := by
  intro cs
  induction cs with
  | nil =>
    intro pre best bi i hl hi hb hpre
    refine ⟨best, by simpa [bestIdxFrom] using hb, ?_⟩
    intro w hw; rw [hl] at hw; simp at hw; exact hpre w hw
  | cons c cs ih =>
    intro pre best bi i hl hi hb hpre
    have hl' : l = (pre ++ [c]) ++ cs := by rw [hl]; simp
    have hi' : i + 1 = (pre ++ [c]).length := by simp [hi]
    by_cases hgt : c > best
    · have e : bestIdxFrom best bi i (c :: cs) = bestIdxFrom c i (i + 1) cs := by
        simp [bestIdxFrom, hgt]
      rw [e]
      apply ih (pre ++ [c]) c i (i + 1) hl' hi'
      · rw [hl, hi]; simp
      · intro v hv
        simp at hv
        rcases hv with hv | rfl
        · exact le_trans (hpre v hv) (le_of_lt hgt)
        · exact le_refl _
    · have e : bestIdxFrom best bi i (c :: cs) = bestIdxFrom best bi (i + 1) cs := by
        simp [bestIdxFrom, hgt]
      rw [e]
      apply ih (pre ++ [c]) best bi (i + 1) hl' hi' hb
      intro v hv
      simp at hv
      rcases hv with hv | rfl
      · exact hpre v hv
      · exact not_lt.mp hgt

theorem bestIdx_spec (l : List Rat) (h : l ≠ []) :
    ∃ v, l[bestIdx l]? = some v ∧ ∀ w ∈ l, w ≤ v := by
  cases l with
  | nil => exact absurd rfl h
  | cons c cs =>
    exact bestIdxFrom_spec (c :: cs) cs [c] c 0 1 rfl rfl (by simp) (by simp)

/-! ### backtrack -/

theorem backtrack_spec (tbl : List (α × Rat × Option Nat)) (pre : List α)
    (hitems : tbl.map (·.1) = pre) (hg : Good score join tbl) :
    ∀ (fuel i : Nat) (acc : List Nat) (x : α) (c : Rat) (p : Option Nat),
      i < fuel → tbl[i]? = some (x, c, p) →
      ∃ path : List Nat, backtrack tbl fuel i acc = path ++ i :: acc ∧
        (∀ k ∈ path, k < i) ∧ path.Pairwise (· < ·) ∧
        chainTotal score join ((path ++ [i]).filterMap (fun k => pre[k]?)) = some c := by
  have hget : ∀ (k : Nat) (y : α) (cy : Rat) (py : Option Nat), tbl[k]? = some (y, cy, py) → pre[k]? = some y := by
    intro k y cy py hk
    rw [← hitems, List.getElem?_map, hk]; rfl
  intro fuel
  induction fuel with
  | zero => intro i acc x c p hi; omega
  | succ fuel ih =>
    intro i acc x c p hi hrow
    have hA := (hg i x c p hrow).1
    cases p with
    | none =>
      refine ⟨[], by simp [backtrack, hrow], by simp, by simp, ?_⟩
      simp only [List.nil_append, List.filterMap_cons, List.filterMap_nil, hget i x c none hrow]
      rw [show c = score x from hA]
      rfl
    | some j =>
      obtain ⟨hji, y, cj, pj, jn, hj, hjn, hc⟩ := hA
      obtain ⟨path, hbt, hlt, hpw, htot⟩ := ih j (i :: acc) y cj pj (by omega) hj
      refine ⟨path ++ [j], ?_, ?_, ?_, ?_⟩
      · simp [backtrack, hrow, hbt]
      · intro k hk
        simp at hk
        rcases hk with hk | rfl
        · exact Nat.lt_trans (hlt k hk) hji
        · exact hji
      · rw [List.pairwise_append]
        refine ⟨hpw, by simp, ?_⟩
        intro a ha b hb
        simp at hb; subst hb; exact hlt a ha
      · rw [List.filterMap_append] at htot ⊢
        simp only [List.filterMap_cons, List.filterMap_nil, hget i x c _ hrow, hget j y cj pj hj] at htot ⊢
        rw [List.filterMap_append]
        simp only [List.filterMap_cons, List.filterMap_nil, hget j y cj pj hj]
        rw [List.append_assoc]
        show chainTotal score join (_ ++ [y, x]) = _
        rw [chainTotal_snoc, htot, hjn, hc]

/-! ### strictly increasing index lists select sublists -/

theorem filterMap_idx_sublist_drop (l : List α) : ∀ (is : List Nat) (n : Nat),
    is.Pairwise (· < ·) → (∀ i ∈ is, n ≤ i) →
    (is.filterMap (fun i => l[i]?)).Sublist (l.drop n) := by
  intro is
  induction is with
  | nil => intro n _ _; simp
  | cons i is ih =>
    intro n hpw hn
    rw [List.pairwise_cons] at hpw
    have hrest := ih (i + 1) hpw.2 (fun k hk => hpw.1 k hk)
    have hni : n ≤ i := hn i (by simp)
    by_cases hi : i < l.length
    · have e : (i :: is).filterMap (fun i => l[i]?) = l[i] :: is.filterMap (fun i => l[i]?) := by
        simp [List.getElem?_eq_getElem hi]
      rw [e]
      refine List.Sublist.trans ?_ (List.drop_sublist_drop_left l hni)
      rw [List.drop_eq_getElem_cons hi]
      exact hrest.cons_cons _
    · have e : (i :: is).filterMap (fun i => l[i]?) = is.filterMap (fun i => l[i]?) := by
        simp [List.getElem?_eq_none (Nat.le_of_not_lt hi)]
      rw [e]
      exact hrest.trans (List.drop_sublist_drop_left l (by omega))

theorem filterMap_idx_sublist (l : List α) (is : List Nat) (h : is.Pairwise (· < ·)) :
    (is.filterMap (fun i => l[i]?)).Sublist l := by
  simpa using filterMap_idx_sublist_drop l is 0 h (fun _ _ => Nat.zero_le _)

/-! ### assembling `dpChain` -/

theorem dpChain_spec (pre : List α) (h : pre ≠ []) :
    ∃ (b : Nat) (path : List Nat) (x : α) (c : Rat) (p : Option Nat),
      (dpTable score join [] pre)[b]? = some (x, c, p) ∧
      dpChain score join pre = (path ++ [b], c) ∧
      b < pre.length ∧ (∀ k ∈ path, k < b) ∧ path.Pairwise (· < ·) ∧
      chainTotal score join ((path ++ [b]).filterMap (fun k => pre[k]?)) = some c ∧
      ∀ w ∈ (dpTable score join [] pre).map (fun t => t.2.1), w ≤ c := by
  have hg : Good score join (dpTable score join [] pre) := dpTable_good score join pre [] (good_nil score join)
  have hitems : (dpTable score join [] pre).map (·.1) = pre := by
    simpa using dpTable_items score join pre []
  generalize htbl : dpTable score join [] pre = tbl at hg hitems
  have hlen : tbl.length = pre.length := by rw [← hitems]; simp
  have hcne : tbl.map (fun t => t.2.1) ≠ [] := by
    intro hnil
    have : tbl.length = 0 := by simpa using congrArg List.length hnil
    have : pre.length = 0 := by omega
    exact h (List.eq_nil_of_length_eq_zero this)
  obtain ⟨v, hv, hmax⟩ := bestIdx_spec (tbl.map (fun t => t.2.1)) hcne
  generalize hb : bestIdx (tbl.map (fun t => t.2.1)) = b at hv
  rw [List.getElem?_map] at hv
  cases hrow : tbl[b]? with
  | none => simp [hrow] at hv
  | some row =>
    obtain ⟨x, c, p⟩ := row
    simp [hrow] at hv
    subst hv
    have hbl : b < pre.length := by
      rw [← hlen]; exact (List.getElem?_eq_some_iff.mp hrow).1
    obtain ⟨path, hbt, hlt, hpw, htot⟩ :=
      backtrack_spec score join tbl pre hitems hg pre.length b [] x c p hbl hrow
    refine ⟨b, path, x, c, p, hrow, ?_, hbl, hlt, hpw, htot, hmax⟩
    simp only [dpChain, htbl, hb, hbt, List.getElem?_map, hrow]
    rfl

end DP
end Coma.Proofs
