/-
  Proofs/Translate_Scan.lean — two facts about the ranges cut by the scan that hold for EVERY `minScore` and
  `breakSegmentThreshold` (the facts of Proofs/ScanInv.lean assume `0 ≤ bst`): a range starts on a positive score,
  and every proper prefix of a range sums to less than the whole range (so every non-empty suffix is positive).
-/
import Proofs.ScanInv
namespace Coma.Proofs.Translate
open Coma Coma.Spec Coma.Proofs.Scan

structure G (s : List Int) (r : Rng) : Prop where
  lt : r.start < r.stop
  le : r.stop ≤ s.length
  first : 0 < s.getD r.start 0
  pre : ∀ k, r.start ≤ k → k < r.stop → sumRange s r.start k < sumRange s r.start r.stop

structure I (s : List Int) (e : Nat) (st : ScanSt) : Prop where
  start_le : st.start ≤ e
  e_le : e ≤ s.length
  ext_eq : st.ext = sumRange s st.start e
  cur_nonneg : 0 ≤ st.curScore
  pre_le : ∀ k, st.start ≤ k → k ≤ e → sumRange s st.start k ≤ st.curScore
  first : st.start < e → 0 < s.getD st.start 0
  cur_good : ∀ r, st.cur = some r → G s r
  res_good : ∀ r ∈ st.res, G s r

theorem I_init (s : List Int) : I s 0 {} := by
  constructor <;> simp [sumRange_self, ScanSt.curScore]

theorem flush_I {s : List Int} {ms : Int} {e : Nat} {st : ScanSt} (inv : I s e st) :
    (∀ r, (st.flush ms).cur = some r → G s r) ∧ (∀ r ∈ (st.flush ms).res, G s r) ∧
      0 ≤ (st.flush ms).curScore := by
  cases hc : st.cur with
  | none =>
    have hf : st.flush ms = st := by simp [ScanSt.flush, hc]
    rw [hf]; exact ⟨inv.cur_good, inv.res_good, inv.cur_nonneg⟩
  | some r =>
    by_cases hm : r.score ≥ ms
    · have hf : st.flush ms = { st with res := st.res ++ [r], cur := none } := by
        simp [ScanSt.flush, hc, hm]
      rw [hf]
      refine ⟨(by intro r' hr'; cases hr'), ?_, (by simp [ScanSt.curScore])⟩
      intro r' hr'
      simp only [List.mem_append, List.mem_singleton] at hr'
      rcases hr' with hr' | rfl
      · exact inv.res_good r' hr'
      · exact inv.cur_good _ hc
    · have hf : st.flush ms = st := by simp [ScanSt.flush, hc, hm]
      rw [hf]; exact ⟨inv.cur_good, inv.res_good, inv.cur_nonneg⟩

theorem flush_start (ms : Int) (st : ScanSt) : (st.flush ms).start = st.start := by
  unfold ScanSt.flush
  split
  · split <;> rfl
  · rfl

theorem I_step {s : List Int} {ms bst : Int} {e : Nat} {st : ScanSt} {x : Int}
    (inv : I s e st) (hx : s[e]? = some x) : I s (e + 1) (scanStep ms bst st e x) := by
  have hlt := lt_length_of_getElem? s e x hx
  have hsucc : sumRange s st.start (e + 1) = st.ext + x := by
    rw [sumRange_succ s st.start e x inv.start_le hx, inv.ext_eq]
  have hxe : s.getD e 0 = x := getD_of_getElem? s e x hx
  by_cases hb : st.ext + x ≤ max 0 (st.curScore - bst)
  · rw [scanStep_break hb]
    obtain ⟨f1, f2, f3⟩ := flush_I (ms := ms) inv
    refine ⟨Nat.le_refl _, hlt, by simp [sumRange_self], f3, ?_, ?_, f1, f2⟩
    · intro k h1 h2
      have : k = e + 1 := by simp only at h1; omega
      subst this
      simp only [sumRange_self]
      exact f3
    · intro h; simp only at h; omega
  · have hpos : 0 < st.ext + x := by omega
    have hfirst : st.start < e + 1 → 0 < s.getD st.start 0 := by
      intro _
      by_cases h : st.start < e
      · exact inv.first h
      · have he : st.start = e := by have := inv.start_le; omega
        have h0 : st.ext = 0 := by rw [inv.ext_eq, he, sumRange_self]
        rw [he, hxe]; omega
    by_cases ha : st.ext + x > st.curScore
    · rw [scanStep_accept hb ha]
      have hcs : ({ st with ext := st.ext + x, cur := some ⟨st.start, e + 1, st.ext + x⟩ } : ScanSt).curScore
          = st.ext + x := rfl
      refine ⟨by have := inv.start_le; simp only; omega, hlt, hsucc.symm, ?_, ?_, hfirst, ?_, inv.res_good⟩
      · rw [hcs]; have := inv.cur_nonneg; omega
      · intro k h1 h2
        rw [hcs]
        have h1' : st.start ≤ k := h1
        show sumRange s st.start k ≤ st.ext + x
        by_cases hk : k ≤ e
        · have := inv.pre_le k h1' hk; omega
        · have : k = e + 1 := by omega
          subst this; rw [hsucc]; exact Int.le_refl _
      · intro r hr
        simp only [Option.some.injEq] at hr
        subst hr
        refine ⟨by have := inv.start_le; simp only; omega, hlt, hfirst (by have := inv.start_le; omega), ?_⟩
        intro k h1 h2
        simp only at h1 h2 ⊢
        have := inv.pre_le k h1 (by omega)
        rw [hsucc]; omega
    · rw [scanStep_plain hb ha]
      have hcs : ({ st with ext := st.ext + x } : ScanSt).curScore = st.curScore := rfl
      refine ⟨by have := inv.start_le; simp only; omega, hlt, hsucc.symm, inv.cur_nonneg, ?_, hfirst,
        inv.cur_good, inv.res_good⟩
      intro k h1 h2
      rw [hcs]
      have h1' : st.start ≤ k := h1
      show sumRange s st.start k ≤ st.curScore
      by_cases hk : k ≤ e
      · exact inv.pre_le k h1' hk
      · have : k = e + 1 := by omega
        subst this
        show sumRange s st.start (e + 1) ≤ st.curScore
        rw [hsucc]; omega

theorem I_scanFrom {s : List Int} {ms bst : Int} :
    ∀ (rest : List Int) (e : Nat) (st : ScanSt), I s e st → s.drop e = rest →
      I s s.length (scanFrom ms bst st e rest) := by
  intro rest
  induction rest with
  | nil =>
    intro e st inv hd
    have h1 : s.length ≤ e := List.drop_eq_nil_iff.mp hd
    have h2 : e = s.length := by have := inv.e_le; omega
    subst h2
    exact inv
  | cons x xs ih =>
    intro e st inv hd
    have hs : s[e]? = some x := by
      have := List.getElem?_drop (xs := s) (i := e) (j := 0)
      rw [hd] at this
      simpa using this.symm
    have hd' : s.drop (e + 1) = xs := by
      rw [List.drop_add_one_eq_tail_drop, hd]; rfl
    exact ih (e + 1) _ (I_step inv hs) hd'

theorem scan_G (ms bst : Int) (s : List Int) : ∀ r ∈ scanRanges ms bst s, G s r := by
  have inv := I_scanFrom (ms := ms) (bst := bst) s 0 {} (I_init s) rfl
  exact (flush_I (ms := ms) inv).2.1

/-! ### splitting a range -/

theorem sumRange_split (s : List Int) (a b : Nat) (hab : a ≤ b) : ∀ (n : Nat), b + n ≤ s.length →
    sumRange s a (b + n) = sumRange s a b + sumRange s b (b + n)
  | 0, _ => by simp [sumRange_self]
  | n + 1, h => by
    have hlt : b + n < s.length := by omega
    have hx : s[b + n]? = some s[b + n] := List.getElem?_eq_getElem hlt
    have e1 : b + (n + 1) = (b + n) + 1 := by omega
    rw [e1, sumRange_succ s a (b + n) _ (by omega) hx, sumRange_succ s b (b + n) _ (by omega) hx,
      sumRange_split s a b hab n (by omega)]
    omega

/-- every non-empty suffix of a range has a positive sum -/
theorem G_suffix_pos {s : List Int} {r : Rng} (g : G s r) (k : Nat) (h1 : r.start ≤ k) (h2 : k < r.stop) :
    0 < sumRange s k r.stop := by
  have hp := g.pre k h1 h2
  have hs := sumRange_split s r.start k h1 (r.stop - k) (by have := g.le; omega)
  have e : k + (r.stop - k) = r.stop := by omega
  rw [e] at hs
  omega

end Coma.Proofs.Translate
