import Proofs.SrcBlind_Erase
/-! nothing that is written reads `source` -/
namespace Coma.Proofs.SrcBlind
open Coma Coma.Spec

theorem dedupQueryKeepLast_eP : ∀ (ps : List Pr),
    dedupQueryKeepLast (ps.map eP) = (dedupQueryKeepLast ps).map eP
  | [] => rfl
  | [_] => rfl
  | p :: q :: rest => by
    have ih := dedupQueryKeepLast_eP (q :: rest)
    simp only [List.map_cons] at ih ⊢
    simp only [dedupQueryKeepLast, eP_q, ih]
    split <;> simp

theorem hitWalk_eP : ∀ (fuel : Nat) (refIdx last : Int) (cur : Option Pr) (rest : List Pr) (prevQ : Int),
    hitWalk fuel refIdx last (cur.map eP) (rest.map eP) prevQ = hitWalk fuel refIdx last cur rest prevQ
  | 0, _, _, _, _, _ => rfl
  | fuel + 1, refIdx, last, cur, rest, prevQ => by
    unfold hitWalk
    cases cur with
    | none => rfl
    | some c =>
      simp only [Option.map_some, eP_q, eP_r]
      have h1 := hitWalk_eP fuel (refIdx + 1) last (some c) rest
      simp only [Option.map_some] at h1
      simp only [h1]
      cases rest with
      | nil =>
        simp only [List.map_nil]
        rfl
      | cons n ns =>
        have h2 := hitWalk_eP fuel (refIdx + 1) last (some n) ns c.q.site
        simp only [Option.map_some] at h2
        simp only [List.map_cons, h2]
        rfl

theorem hitEnums_eP (ps : List Pr) : hitEnums (ps.map eP) = hitEnums ps := by
  unfold hitEnums
  rw [dedupQueryKeepLast_eP]
  cases dedupQueryKeepLast ps with
  | nil => rfl
  | cons p qs =>
    simp only [List.map_cons]
    have hl : ((eP p :: qs.map eP).getLast (by simp)).r.site = ((p :: qs).getLast (by simp)).r.site := by
      have : eP p :: qs.map eP = (p :: qs).map eP := rfl
      simp only [this, List.getLast_map, eP_r]
    simp only [hl, eP_r, eP_q]
    exact hitWalk_eP _ _ _ (some p) qs _

theorem cigarOf_eP (agg : List Hit → Except Err (List (Nat × Hit))) (ps : List Pr) :
    cigarOf agg (ps.map eP) = cigarOf agg ps := by
  unfold cigarOf
  rw [hitEnums_eP]
  cases ps <;> rfl

theorem map_sites_eP (ps : List Pr) :
    (ps.map eP).map (fun p => (p.r.site, p.q.site)) = ps.map (fun p => (p.r.site, p.q.site)) := by
  rw [List.map_map]; rfl

theorem toXRow_E (cfg : Cfg) (agg : List Hit → Except Err (List (Nat × Hit))) (i : Nat) (r : Row) :
    (E r).toXRow cfg (cigarOf agg) i = r.toXRow cfg (cigarOf agg) i := by
  unfold Row.toXRow
  rw [E_pairs, cigarOf_eP, map_sites_eP]
  rfl

theorem renderRowsFrom_E (cfg : Cfg) : ∀ (i : Nat) (rows : List Row),
    renderRowsFrom cfg i (rows.map E) = renderRowsFrom cfg i rows
  | _, [] => rfl
  | i, r :: rs => by
    simp only [List.map_cons, renderRowsFrom, toXRow_E, renderRowsFrom_E cfg (i + 1) rs]

theorem renderRows_E (cfg : Cfg) (rows : List Row) : renderRows cfg (rows.map E) = renderRows cfg rows :=
  renderRowsFrom_E cfg 1 rows

end Coma.Proofs.SrcBlind
