/-
  Proofs/Compare.lean — proofs for C19 (alignment comparison): dictionary keys, partition of keys,
  bounded measures, reflexivity, swap symmetry.  Helpers live in `Coma.Proofs.Compare`.
-/
import Props.Defs
import Proofs.SortLemmas
import Mathlib.Algebra.Order.Field.Rat
import Mathlib.Tactic.Linarith
import Mathlib.Tactic.Positivity

namespace Coma.Proofs.Compare
open Coma Coma.Spec

/-! ### dictionaries -/

abbrev keys (d : List (Key × BAl)) : List Key := d.map (·.1)

theorem mem_keys_dictInsert (k : Key) (v : BAl) (d : List (Key × BAl)) (k' : Key) :
    k' ∈ keys (dictInsert k v d) ↔ k' = k ∨ k' ∈ keys d := by
  induction d with
  | nil => simp [dictInsert]
  | cons e t ih =>
    obtain ⟨k0, v0⟩ := e
    unfold dictInsert
    by_cases h : k0 = k
    · subst h; simp
    · simp only [h, if_false, keys, List.map_cons, List.mem_cons] at ih ⊢
      rw [ih]
      constructor
      · rintro (h | h | h) <;> simp [h]
      · rintro (h | h | h) <;> simp [h]

theorem nodup_dictInsert (k : Key) (v : BAl) (d : List (Key × BAl)) (h : (keys d).Nodup) :
    (keys (dictInsert k v d)).Nodup := by
  induction d with
  | nil => simp [dictInsert]
  | cons e t ih =>
    obtain ⟨k0, v0⟩ := e
    unfold dictInsert
    simp only [keys, List.map_cons, List.nodup_cons] at h
    by_cases hk : k0 = k
    · subst hk; simpa using h
    · simp only [hk, if_false, keys, List.map_cons, List.nodup_cons]
      refine ⟨?_, ih h.2⟩
      intro hm
      rcases (mem_keys_dictInsert k v t k0).1 hm with h' | h'
      · exact hk h'
      · exact h.1 h'

theorem foldl_dictInsert_spec (l : List BAl) (d : List (Key × BAl)) (hd : (keys d).Nodup) :
    (keys (l.foldl (fun d a => dictInsert a.key a d) d)).Nodup ∧
    ∀ k, k ∈ keys (l.foldl (fun d a => dictInsert a.key a d) d) ↔ (k ∈ keys d ∨ ∃ a ∈ l, a.key = k) := by
  induction l generalizing d with
  | nil => simp [hd]
  | cons a t ih =>
    simp only [List.foldl_cons]
    obtain ⟨h1, h2⟩ := ih (dictInsert a.key a d) (nodup_dictInsert _ _ _ hd)
    refine ⟨h1, fun k => ?_⟩
    rw [h2, mem_keys_dictInsert]
    simp only [List.mem_cons, exists_eq_or_imp]
    constructor
    · rintro ((h | h) | h)
      · exact Or.inr (Or.inl h.symm)
      · exact Or.inl h
      · exact Or.inr (Or.inr h)
    · rintro (h | h | h)
      · exact Or.inl (Or.inr h)
      · exact Or.inl (Or.inl h.symm)
      · exact Or.inr h

theorem toDict_spec (as : List BAl) :
    (keys (toDict as)).Nodup ∧ ∀ k, k ∈ keys (toDict as) ↔ ∃ a ∈ as, a.key = k := by
  obtain ⟨h1, h2⟩ := foldl_dictInsert_spec (isort (fun a => a.rid) (isort (fun a => a.qid) as)) [] (by simp)
  refine ⟨h1, fun k => ?_⟩
  unfold toDict
  rw [h2]
  simp [mem_isort]

theorem dictGet?_isSome (d : List (Key × BAl)) (k : Key) : (dictGet? d k).isSome = (keys d).contains k := by
  induction d with
  | nil => simp [dictGet?]
  | cons e t ih =>
    obtain ⟨k0, v0⟩ := e
    unfold dictGet? at ih ⊢
    by_cases h : k0 = k
    · subst h; simp
    · have h' : ¬ k = k0 := fun e => h e.symm
      simp only [List.find?_cons, h, decide_false, keys, List.map_cons, List.contains_cons] at ih ⊢
      rw [ih]; simp [h']

theorem dictGet?_isNone (d : List (Key × BAl)) (k : Key) : (dictGet? d k).isNone = !(keys d).contains k := by
  rw [← dictGet?_isSome]; cases dictGet? d k <;> rfl

theorem dictGet?_of_mem (d : List (Key × BAl)) (hd : (keys d).Nodup) (k : Key) (v : BAl) (h : (k, v) ∈ d) :
    dictGet? d k = some v := by
  induction d with
  | nil => cases h
  | cons e t ih =>
    obtain ⟨k0, v0⟩ := e
    simp only [keys, List.map_cons, List.nodup_cons] at hd
    unfold dictGet? at ih ⊢
    rcases List.mem_cons.1 h with h | h
    · cases h; simp
    · have : k0 ≠ k := by
        rintro rfl
        exact hd.1 (List.mem_map.2 ⟨(k0, v), h, rfl⟩)
      simp only [List.find?_cons, this, decide_false]
      exact ih hd.2 h

theorem mem_of_dictGet? (d : List (Key × BAl)) (k : Key) (v : BAl) (h : dictGet? d k = some v) : (k, v) ∈ d := by
  unfold dictGet? at h
  cases hf : d.find? (fun e => e.1 = k) with
  | none => simp [hf] at h
  | some e =>
    simp only [hf, Option.map_some, Option.some.injEq] at h
    have h1 := List.mem_of_find?_eq_some hf
    have h2 := List.find?_some hf
    simp only [decide_eq_true_eq] at h2
    obtain ⟨k0, v0⟩ := e
    simp only at h h2; subst h; subst h2; exact h1

/-! ### structure of `compareSets` -/

def bothRows (flag : Bool) (M : List BPair → List BPair → Nat) (d1 d2 : List (Key × BAl)) : List RowCmp :=
  d1.filterMap fun (k, a1) => (dictGet? d2 k).map fun a2 => compareRow flag M a1 a2

def onlyRows (t : RowType) (d1 d2 : List (Key × BAl)) : List RowCmp :=
  (d1.filter fun (k, _) => (dictGet? d2 k).isNone).map fun (k, _) =>
    ({ type := t, key := k, diff1 := [], diff2 := [], cov1 := 0, cov2 := 0, ident := 0 } : RowCmp)

def allRows (flag : Bool) (M : List BPair → List BPair → Nat) (as1 as2 : List BAl) : List RowCmp :=
  bothRows flag M (toDict as1) (toDict as2) ++ onlyRows .firstOnly (toDict as1) (toDict as2) ++
    onlyRows .secondOnly (toDict as2) (toDict as1)

theorem rows_eq (flag M as1 as2) : (compareSets flag M as1 as2).rows = allRows flag M as1 as2 := rfl
theorem overlapping_eq (flag M as1 as2) :
    (compareSets flag M as1 as2).overlapping = ((allRows flag M as1 as2).filter RowCmp.overlapping).length := rfl
theorem nonOverlapping_eq (flag M as1 as2) :
    (compareSets flag M as1 as2).nonOverlapping =
      ((allRows flag M as1 as2).filter fun r => r.type = .both && !r.overlapping).length := rfl
theorem firstOnly_eq (flag M as1 as2) :
    (compareSets flag M as1 as2).firstOnly = ((allRows flag M as1 as2).filter fun r => r.type = .firstOnly).length := rfl
theorem secondOnly_eq (flag M as1 as2) :
    (compareSets flag M as1 as2).secondOnly = ((allRows flag M as1 as2).filter fun r => r.type = .secondOnly).length := rfl

theorem filter_eq_nil_of {α} (p : α → Bool) (l : List α) (h : ∀ x ∈ l, p x = false) : l.filter p = [] := by
  rw [List.filter_eq_nil_iff]; intro x hx; simp [h x hx]

theorem filter_eq_self_of {α} (p : α → Bool) (l : List α) (h : ∀ x ∈ l, p x = true) : l.filter p = l := by
  rw [List.filter_eq_self]; exact h

theorem bothRows_type {flag M d1 d2} : ∀ r ∈ bothRows flag M d1 d2, r.type = .both := by
  intro r hr
  simp only [bothRows, List.mem_filterMap] at hr
  obtain ⟨⟨k, a1⟩, _, h⟩ := hr
  cases hg : dictGet? d2 k with
  | none => simp [hg] at h
  | some a2 => simp [hg] at h; subst h; rfl

theorem onlyRows_type {t d1 d2} : ∀ r ∈ onlyRows t d1 d2, r.type = t ∧ r.ident = 0 ∧ r.cov1 = 0 ∧ r.cov2 = 0 := by
  intro r hr
  simp only [onlyRows, List.mem_map] at hr
  obtain ⟨⟨k, a1⟩, _, h⟩ := hr
  subst h; simp

theorem onlyRows_length (t d1 d2) : (onlyRows t d1 d2).length = ((keys d1).filter fun k => !(keys d2).contains k).length := by
  simp only [onlyRows, List.length_map, keys, List.filter_map]
  congr 1
  apply List.filter_congr
  intro ⟨k, a⟩ _
  simp [dictGet?_isNone]

theorem length_filterMap_eq {α β} (f : α → Option β) (l : List α) :
    (l.filterMap f).length = (l.filter fun x => (f x).isSome).length := by
  induction l with
  | nil => rfl
  | cons a t ih =>
    simp only [List.filterMap_cons, List.filter_cons]
    cases h : f a <;> simp [ih]

theorem bothRows_length (flag M d1 d2) :
    (bothRows flag M d1 d2).length = ((keys d1).filter fun k => (keys d2).contains k).length := by
  simp only [bothRows, length_filterMap_eq, keys, List.filter_map, List.length_map]
  congr 1
  apply List.filter_congr
  intro ⟨k, a⟩ _
  simp [dictGet?_isSome, keys]

theorem filter_not_add {α} (p : α → Bool) (l : List α) :
    (l.filter p).length + (l.filter fun x => !p x).length = l.length := by
  induction l with
  | nil => rfl
  | cons a t ih =>
    simp only [List.filter_cons]
    cases h : p a <;> simp <;> omega

/-- the four counters in terms of the three blocks -/
theorem counts (flag M as1 as2) :
    let B := bothRows flag M (toDict as1) (toDict as2)
    (compareSets flag M as1 as2).overlapping = (B.filter RowCmp.overlapping).length ∧
    (compareSets flag M as1 as2).nonOverlapping = (B.filter fun r => !r.overlapping).length ∧
    (compareSets flag M as1 as2).firstOnly = (onlyRows .firstOnly (toDict as1) (toDict as2)).length ∧
    (compareSets flag M as1 as2).secondOnly = (onlyRows .secondOnly (toDict as2) (toDict as1)).length := by
  intro B
  have ho : ∀ t d1 d2, (onlyRows t d1 d2).filter RowCmp.overlapping = [] := by
    intro t d1 d2
    apply filter_eq_nil_of
    intro r hr
    simp [RowCmp.overlapping, (onlyRows_type r hr).2.1]
  refine ⟨?_, ?_, ?_, ?_⟩
  · rw [overlapping_eq, allRows, List.filter_append, List.filter_append, ho, ho]; simp [B]
  · rw [nonOverlapping_eq, allRows, List.filter_append, List.filter_append,
      filter_eq_nil_of _ (onlyRows .firstOnly _ _), filter_eq_nil_of _ (onlyRows .secondOnly _ _)]
    · simp only [List.append_nil]
      congr 1
      apply List.filter_congr
      intro r hr
      simp [bothRows_type r hr]
    · intro r hr; simp [(onlyRows_type r hr).1]
    · intro r hr; simp [(onlyRows_type r hr).1]
  · rw [firstOnly_eq, allRows, List.filter_append, List.filter_append,
      filter_eq_nil_of _ (bothRows _ _ _ _), filter_eq_nil_of _ (onlyRows .secondOnly _ _),
      filter_eq_self_of _ (onlyRows .firstOnly _ _)]
    · simp
    · intro r hr; simp [(onlyRows_type r hr).1]
    · intro r hr; simp [(onlyRows_type r hr).1]
    · intro r hr; simp [bothRows_type r hr]
  · rw [secondOnly_eq, allRows, List.filter_append, List.filter_append,
      filter_eq_nil_of _ (bothRows _ _ _ _), filter_eq_nil_of _ (onlyRows .firstOnly _ _),
      filter_eq_self_of _ (onlyRows .secondOnly _ _)]
    · simp
    · intro r hr; simp [(onlyRows_type r hr).1]
    · intro r hr; simp [(onlyRows_type r hr).1]
    · intro r hr; simp [bothRows_type r hr]

/-! ### measures -/

theorem dedupList_length_le (l : List BPair) : (dedupList l).length ≤ l.length := by
  induction l with
  | nil => simp [dedupList]
  | cons x xs ih =>
    unfold dedupList
    split
    · simp; omega
    · simp; omega

theorem difference_length_le (ps other : List BPair) : (difference ps other).length ≤ ps.length :=
  Nat.le_trans (dedupList_length_le _) (List.length_filter_le _ _)

theorem coverage_bounds (ps diff : List BPair) (h : diff.length ≤ ps.length) :
    0 ≤ coverage ps diff ∧ coverage ps diff ≤ 1 := by
  unfold coverage
  split
  · rename_i hp
    have hp' : (0 : Rat) < (ps.length : Rat) := by exact_mod_cast hp
    have h1 : (0 : Rat) ≤ ((ps.length - diff.length : Int) : Rat) := by
      have : (0 : Int) ≤ (ps.length - diff.length : Int) := by omega
      exact_mod_cast this
    have h2 : ((ps.length - diff.length : Int) : Rat) ≤ (ps.length : Rat) := by
      have : (ps.length - diff.length : Int) ≤ (ps.length : Int) := by omega
      exact_mod_cast this
    exact ⟨div_nonneg h1 (le_of_lt hp'), (div_le_one hp').2 h2⟩
  · exact ⟨by norm_num, le_refl _⟩

theorem identity_bounds {M} (hM : MatcherOK M) (a b : List BPair) :
    0 ≤ identity M a b ∧ identity M a b ≤ 1 := by
  unfold identity
  split
  · exact ⟨by norm_num, le_refl _⟩
  · rename_i hp
    have hp' : (0 : Rat) < ((a.length + b.length : Nat) : Rat) := by
      have : 0 < a.length + b.length := by omega
      exact_mod_cast this
    have hm := hM.le_min a b
    have h2 : 2 * M a b ≤ a.length + b.length := by omega
    refine ⟨div_nonneg (by exact_mod_cast Nat.zero_le _) (le_of_lt hp'), (div_le_one hp').2 ?_⟩
    exact_mod_cast h2

theorem compareRow_bounds (flag : Bool) {M} (hM : MatcherOK M) (a1 a2 : BAl) :
    let r := compareRow flag M a1 a2
    0 ≤ r.ident ∧ r.ident ≤ 1 ∧ 0 ≤ r.cov1 ∧ r.cov1 ≤ 1 ∧ 0 ≤ r.cov2 ∧ r.cov2 ≤ 1 := by
  simp only [compareRow]
  obtain ⟨i1, i2⟩ := identity_bounds hM (combine flag a1.pairs a2.pairs) (combine flag a2.pairs a1.pairs)
  obtain ⟨c1, c2⟩ := coverage_bounds _ _ (difference_length_le (combine flag a1.pairs a2.pairs) (combine flag a2.pairs a1.pairs))
  obtain ⟨c3, c4⟩ := coverage_bounds _ _ (difference_length_le (combine flag a2.pairs a1.pairs) (combine flag a1.pairs a2.pairs))
  exact ⟨i1, i2, c1, c2, c3, c4⟩

theorem mem_bothRows {flag M d1 d2 r} (h : r ∈ bothRows flag M d1 d2) :
    ∃ k a1 a2, (k, a1) ∈ d1 ∧ dictGet? d2 k = some a2 ∧ r = compareRow flag M a1 a2 := by
  simp only [bothRows, List.mem_filterMap] at h
  obtain ⟨⟨k, a1⟩, hm, h⟩ := h
  cases hg : dictGet? d2 k with
  | none => simp [hg] at h
  | some a2 => simp [hg] at h; exact ⟨k, a1, a2, hm, hg, h.symm⟩

theorem mem_allRows {flag M as1 as2 r} (h : r ∈ allRows flag M as1 as2) :
    r ∈ bothRows flag M (toDict as1) (toDict as2) ∨ r ∈ onlyRows .firstOnly (toDict as1) (toDict as2) ∨
      r ∈ onlyRows .secondOnly (toDict as2) (toDict as1) := by
  simpa [allRows, or_assoc] using h

/-! ### reflexivity -/

theorem groupByQ_eq (ps : List BPair) : groupByQ ps = groupAdj (fun p => p.2) ps := by
  induction ps with
  | nil => rfl
  | cons x xs ih =>
    simp only [groupByQ, groupAdj, ih]
    generalize groupAdj (fun p : BPair => p.2) xs = L
    rcases L with _ | ⟨(_ | ⟨y, g⟩), gs⟩ <;> rfl

theorem combine_self (flag : Bool) (ps : List BPair) : combine flag ps ps = ps := by
  unfold combine
  cases flag
  · rfl
  · simp only [Bool.not_true, Bool.false_eq_true, if_false]
    have : ∀ g ∈ groupByQ ps, (fun g : List BPair =>
        let kept := g.filter fun a => ps.contains a
        if kept.isEmpty then g else kept) g = id g := by
      intro g hg
      rw [groupByQ_eq] at hg
      have : g.filter (fun a => ps.contains a) = g := by
        apply filter_eq_self_of
        intro x hx
        simpa using mem_of_mem_groupAdj _ ps g x hg hx
      simp only [this, id]
      split <;> rfl
    rw [List.flatMap_congr this, List.flatMap_id, groupByQ_eq, groupAdj_flatten]

theorem difference_self (ps : List BPair) : difference ps ps = [] := by
  unfold difference
  rw [filter_eq_nil_of]
  · rfl
  · intro x hx; simpa using hx

theorem coverage_nil (ps : List BPair) : coverage ps [] = 1 := by
  unfold coverage
  split
  · rename_i hp
    have hp' : (0 : Rat) < (ps.length : Rat) := by exact_mod_cast hp
    simp only [List.length_nil, Int.natCast_zero, Int.sub_zero, Int.cast_natCast]
    exact div_self (ne_of_gt hp')
  · rfl

theorem identity_self {M} (hM : MatcherOK M) (a : List BPair) : identity M a a = 1 := by
  unfold identity
  split
  · rfl
  · rename_i hp
    have hp' : (0 : Rat) < ((a.length + a.length : Nat) : Rat) := by
      have : 0 < a.length + a.length := by omega
      exact_mod_cast this
    rw [hM.refl, Nat.two_mul]
    exact div_self (ne_of_gt hp')

theorem compareRow_self (flag : Bool) {M} (hM : MatcherOK M) (a : BAl) :
    let r := compareRow flag M a a
    r.type = .both ∧ r.ident = 1 ∧ r.cov1 = 1 ∧ r.cov2 = 1 ∧ r.diff1 = [] ∧ r.diff2 = [] := by
  simp only [compareRow, combine_self, difference_self, coverage_nil, identity_self hM, and_self]

theorem bothRows_self (flag M) (d : List (Key × BAl)) (hd : (keys d).Nodup) :
    bothRows flag M d d = d.map fun e => compareRow flag M e.2 e.2 := by
  unfold bothRows
  rw [← List.filterMap_eq_map]
  apply List.filterMap_congr
  intro ⟨k, a⟩ h
  simp [dictGet?_of_mem d hd k a h]

theorem onlyRows_self (t) (d : List (Key × BAl)) : onlyRows t d d = [] := by
  unfold onlyRows
  rw [filter_eq_nil_of]
  · rfl
  · intro ⟨k, a⟩ h
    simp only [dictGet?_isNone, Bool.not_eq_false', List.contains_iff_mem]
    exact List.mem_map.2 ⟨(k, a), h, rfl⟩

/-! ### swapping -/

theorem identity_pos_iff (M : List BPair → List BPair → Nat) (a b : List BPair) :
    0 < identity M a b ↔ (a.length + b.length = 0 ∨ 0 < M a b) := by
  unfold identity
  split
  · rename_i h; simp [h]
  · rename_i hp
    have hp' : (0 : Rat) < ((a.length + b.length : Nat) : Rat) := by
      have : 0 < a.length + b.length := by omega
      exact_mod_cast this
    rw [div_pos_iff_of_pos_right hp', Nat.cast_pos]
    constructor
    · intro h; right; omega
    · rintro (h | h)
      · exact absurd h hp
      · omega

theorem compareRow_overlapping_swap (flag : Bool) {M} (hM : MatcherOK M) (a1 a2 : BAl) :
    (compareRow flag M a1 a2).overlapping = (compareRow flag M a2 a1).overlapping := by
  simp only [RowCmp.overlapping, compareRow, gt_iff_lt]
  apply decide_eq_decide.2
  rw [identity_pos_iff, identity_pos_iff, hM.symm_pos, Nat.add_comm]

/-- number of common keys whose two values satisfy `f` -/
def cnt (f : BAl → BAl → Bool) (d1 d2 : List (Key × BAl)) : Nat :=
  ((keys d1).filter fun k => (dictGet? d1 k).any fun a1 => (dictGet? d2 k).any fun a2 => f a1 a2).length

theorem bothRows_filter_length (flag M) (p : RowCmp → Bool) (d1 d2 : List (Key × BAl)) (hd1 : (keys d1).Nodup) :
    ((bothRows flag M d1 d2).filter p).length = cnt (fun a1 a2 => p (compareRow flag M a1 a2)) d1 d2 := by
  simp only [bothRows, cnt, List.filter_filterMap, length_filterMap_eq, keys, List.filter_map, List.length_map]
  congr 1
  apply List.filter_congr
  intro ⟨k, a1⟩ h
  simp only [Function.comp, dictGet?_of_mem d1 hd1 k a1 h, Option.any_some]
  cases dictGet? d2 k with
  | none => rfl
  | some a2 =>
    simp only [Option.map_some, Option.any_some]
    cases hp : p (compareRow flag M a1 a2) <;> simp [Option.filter, hp]

theorem cnt_swap (f g : BAl → BAl → Bool) (hfg : ∀ a1 a2, f a1 a2 = g a2 a1) (d1 d2 : List (Key × BAl))
    (hd1 : (keys d1).Nodup) (hd2 : (keys d2).Nodup) : cnt f d1 d2 = cnt g d2 d1 := by
  unfold cnt
  apply List.Perm.length_eq
  rw [List.perm_ext_iff_of_nodup (hd1.filter _) (hd2.filter _)]
  intro k
  simp only [List.mem_filter]
  have e1 := dictGet?_isSome d1 k
  have e2 := dictGet?_isSome d2 k
  simp only [List.contains_eq_mem] at e1 e2
  cases h1 : dictGet? d1 k with
  | none => cases h2 : dictGet? d2 k <;> simp
  | some a1 =>
    cases h2 : dictGet? d2 k with
    | none => simp
    | some a2 =>
      rw [h1] at e1; rw [h2] at e2
      simp only [Option.isSome_some, true_eq_decide_iff] at e1 e2
      simp [e1, e2, hfg]

end Coma.Proofs.Compare

namespace Coma.Proofs
open Coma Coma.Spec Coma.Proofs.Compare

theorem keysOf_spec (as : List BAl) :
    ((toDict as).map (·.1)).Nodup ∧ ∀ k, k ∈ (toDict as).map (·.1) ↔ ∃ a ∈ as, a.key = k :=
  toDict_spec as

theorem compare_partition (flag : Bool) (M : List BPair → List BPair → Nat) (as1 as2 : List BAl) :
    let c := compareSets flag M as1 as2
    let k1 := (toDict as1).map (·.1)
    let k2 := (toDict as2).map (·.1)
    c.overlapping + c.nonOverlapping = (k1.filter (fun k => k2.contains k)).length ∧
    c.firstOnly = (k1.filter (fun k => !k2.contains k)).length ∧
    c.secondOnly = (k2.filter (fun k => !k1.contains k)).length ∧
    c.overlapping + c.nonOverlapping + c.firstOnly + c.secondOnly =
      k1.length + (k2.filter (fun k => !k1.contains k)).length := by
  intro c k1 k2
  obtain ⟨h1, h2, h3, h4⟩ := counts flag M as1 as2
  have hA : c.overlapping + c.nonOverlapping = (k1.filter (fun k => k2.contains k)).length := by
    show (compareSets flag M as1 as2).overlapping + (compareSets flag M as1 as2).nonOverlapping = _
    rw [h1, h2, filter_not_add, bothRows_length]
  have hB : c.firstOnly = (k1.filter (fun k => !k2.contains k)).length := by
    show (compareSets flag M as1 as2).firstOnly = _
    rw [h3, onlyRows_length]
  have hC : c.secondOnly = (k2.filter (fun k => !k1.contains k)).length := by
    show (compareSets flag M as1 as2).secondOnly = _
    rw [h4, onlyRows_length]
  refine ⟨hA, hB, hC, ?_⟩
  rw [hA, hB, hC, filter_not_add]

theorem compare_bounds (flag : Bool) (M : List BPair → List BPair → Nat) (hM : MatcherOK M) (as1 as2 : List BAl) :
    ∀ r ∈ (compareSets flag M as1 as2).rows,
      0 ≤ r.ident ∧ r.ident ≤ 1 ∧ 0 ≤ r.cov1 ∧ r.cov1 ≤ 1 ∧ 0 ≤ r.cov2 ∧ r.cov2 ≤ 1 := by
  intro r hr
  rw [rows_eq] at hr
  rcases mem_allRows hr with h | h | h
  · obtain ⟨k, a1, a2, _, _, rfl⟩ := mem_bothRows h
    exact compareRow_bounds flag hM a1 a2
  · obtain ⟨_, e1, e2, e3⟩ := onlyRows_type r h
    rw [e1, e2, e3]; norm_num
  · obtain ⟨_, e1, e2, e3⟩ := onlyRows_type r h
    rw [e1, e2, e3]; norm_num

theorem compareRow_swap (flag : Bool) (M : List BPair → List BPair → Nat) (a1 a2 : BAl) :
    (compareRow flag M a1 a2).cov1 = (compareRow flag M a2 a1).cov2 ∧
    (compareRow flag M a1 a2).cov2 = (compareRow flag M a2 a1).cov1 ∧
    (compareRow flag M a1 a2).diff1 = (compareRow flag M a2 a1).diff2 ∧
    (compareRow flag M a1 a2).diff2 = (compareRow flag M a2 a1).diff1 :=
  ⟨rfl, rfl, rfl, rfl⟩

theorem compare_reflexive (flag : Bool) (M : List BPair → List BPair → Nat) (hM : MatcherOK M) (as : List BAl) :
    let c := compareSets flag M as as
    c.firstOnly = 0 ∧ c.secondOnly = 0 ∧ c.nonOverlapping = 0 ∧ c.overlapping = ((toDict as).map (·.1)).length ∧
    ∀ r ∈ c.rows, r.type = .both ∧ r.ident = 1 ∧ r.cov1 = 1 ∧ r.cov2 = 1 ∧ r.diff1 = [] ∧ r.diff2 = [] := by
  intro c
  obtain ⟨h1, h2, h3, h4⟩ := counts flag M as as
  have hd := (toDict_spec as).1
  have hrow : ∀ r ∈ bothRows flag M (toDict as) (toDict as),
      r.type = .both ∧ r.ident = 1 ∧ r.cov1 = 1 ∧ r.cov2 = 1 ∧ r.diff1 = [] ∧ r.diff2 = [] := by
    intro r hr
    rw [bothRows_self flag M _ hd, List.mem_map] at hr
    obtain ⟨e, _, rfl⟩ := hr
    exact compareRow_self flag hM e.2
  have hov : ∀ r ∈ bothRows flag M (toDict as) (toDict as), r.overlapping = true := by
    intro r hr
    simp [RowCmp.overlapping, (hrow r hr).2.1]
  refine ⟨?_, ?_, ?_, ?_, ?_⟩
  · show (compareSets flag M as as).firstOnly = 0
    rw [h3, onlyRows_self]; rfl
  · show (compareSets flag M as as).secondOnly = 0
    rw [h4, onlyRows_self]; rfl
  · show (compareSets flag M as as).nonOverlapping = 0
    rw [h2, filter_eq_nil_of]
    · rfl
    · intro r hr; simp [hov r hr]
  · show (compareSets flag M as as).overlapping = _
    rw [h1, filter_eq_self_of _ _ hov, bothRows_self flag M _ hd]
    simp
  · intro r hr
    have hr' : r ∈ allRows flag M as as := hr
    rw [allRows, onlyRows_self, onlyRows_self, List.append_nil, List.append_nil] at hr'
    exact hrow r hr'

theorem compare_swap_counts (flag : Bool) (M : List BPair → List BPair → Nat) (hM : MatcherOK M) (as1 as2 : List BAl) :
    (compareSets flag M as1 as2).firstOnly = (compareSets flag M as2 as1).secondOnly ∧
    (compareSets flag M as1 as2).secondOnly = (compareSets flag M as2 as1).firstOnly ∧
    (compareSets flag M as1 as2).overlapping = (compareSets flag M as2 as1).overlapping ∧
    (compareSets flag M as1 as2).nonOverlapping = (compareSets flag M as2 as1).nonOverlapping := by
  obtain ⟨h1, h2, h3, h4⟩ := counts flag M as1 as2
  obtain ⟨g1, g2, g3, g4⟩ := counts flag M as2 as1
  have hd1 := (toDict_spec as1).1
  have hd2 := (toDict_spec as2).1
  refine ⟨?_, ?_, ?_, ?_⟩
  · rw [h3, g4, onlyRows_length, onlyRows_length]
  · rw [h4, g3, onlyRows_length, onlyRows_length]
  · rw [h1, g1, bothRows_filter_length _ _ _ _ _ hd1, bothRows_filter_length _ _ _ _ _ hd2]
    exact cnt_swap _ _ (fun a1 a2 => compareRow_overlapping_swap flag hM a1 a2) _ _ hd1 hd2
  · rw [h2, g2, bothRows_filter_length _ _ _ _ _ hd1, bothRows_filter_length _ _ _ _ _ hd2]
    exact cnt_swap _ _ (fun a1 a2 => by
      show (!(compareRow flag M a1 a2).overlapping) = !(compareRow flag M a2 a1).overlapping
      rw [compareRow_overlapping_swap flag hM a1 a2]) _ _ hd1 hd2

end Coma.Proofs
