import Props.Defs
namespace Coma.Proofs
open Coma Coma.Spec

theorem keysOf_spec (as : List BAl) :
    ((toDict as).map (·.1)).Nodup ∧ ∀ k, k ∈ (toDict as).map (·.1) ↔ ∃ a ∈ as, a.key = k := by
  sorry

theorem compare_partition (flag : Bool) (M : List BPair → List BPair → Nat) (as1 as2 : List BAl) :
    let c := compareSets flag M as1 as2
    let k1 := (toDict as1).map (·.1)
    let k2 := (toDict as2).map (·.1)
    c.overlapping + c.nonOverlapping = (k1.filter (fun k => k2.contains k)).length ∧
    c.firstOnly = (k1.filter (fun k => !k2.contains k)).length ∧
    c.secondOnly = (k2.filter (fun k => !k1.contains k)).length ∧
    c.overlapping + c.nonOverlapping + c.firstOnly + c.secondOnly =
      k1.length + (k2.filter (fun k => !k1.contains k)).length := by
  sorry

theorem compare_bounds (flag : Bool) (M : List BPair → List BPair → Nat) (hM : MatcherOK M) (as1 as2 : List BAl) :
    ∀ r ∈ (compareSets flag M as1 as2).rows,
      0 ≤ r.ident ∧ r.ident ≤ 1 ∧ 0 ≤ r.cov1 ∧ r.cov1 ≤ 1 ∧ 0 ≤ r.cov2 ∧ r.cov2 ≤ 1 := by
  sorry

theorem compare_reflexive (flag : Bool) (M : List BPair → List BPair → Nat) (hM : MatcherOK M) (as : List BAl) :
    let c := compareSets flag M as as
    c.firstOnly = 0 ∧ c.secondOnly = 0 ∧ c.nonOverlapping = 0 ∧ c.overlapping = ((toDict as).map (·.1)).length ∧
    ∀ r ∈ c.rows, r.type = .both ∧ r.ident = 1 ∧ r.cov1 = 1 ∧ r.cov2 = 1 ∧ r.diff1 = [] ∧ r.diff2 = [] := by
  sorry

theorem compare_swap_counts (flag : Bool) (M : List BPair → List BPair → Nat) (hM : MatcherOK M) (as1 as2 : List BAl) :
    (compareSets flag M as1 as2).firstOnly = (compareSets flag M as2 as1).secondOnly ∧
    (compareSets flag M as1 as2).secondOnly = (compareSets flag M as2 as1).firstOnly ∧
    (compareSets flag M as1 as2).overlapping = (compareSets flag M as2 as1).overlapping ∧
    (compareSets flag M as1 as2).nonOverlapping = (compareSets flag M as2 as1).nonOverlapping := by
  sorry

theorem compareRow_swap (flag : Bool) (M : List BPair → List BPair → Nat) (a1 a2 : BAl) :
    (compareRow flag M a1 a2).cov1 = (compareRow flag M a2 a1).cov2 ∧
    (compareRow flag M a1 a2).cov2 = (compareRow flag M a2 a1).cov1 ∧
    (compareRow flag M a1 a2).diff1 = (compareRow flag M a2 a1).diff2 ∧
    (compareRow flag M a1 a2).diff2 = (compareRow flag M a2 a1).diff1 := by
  sorry

end Coma.Proofs
