/-
  Proofs/Peaks_Refine.lean — helpers for the `refine` theorems of Proofs/Peaks.lean
-/
import Coma.Peaks
import Proofs.Vector
import Proofs.Corr
namespace Coma.Proofs.Peaks
open Coma Coma.Proofs Coma.Proofs.Vector Coma.Proofs.Corr

theorem bind_ok {ε α β} (m : Except ε α) (f : α → Except ε β) (b : β) :
    (m >>= f) = .ok b ↔ ∃ a, m = .ok a ∧ f a = .ok b := by
  cases m <;> simp [bind, Except.bind]

theorem bind_error {ε α β} (m : Except ε α) (f : α → Except ε β) (e : ε) :
    (m >>= f) = .error e ↔ m = .error e ∨ ∃ a, m = .ok a ∧ f a = .error e := by
  cases m <;> simp [bind, Except.bind]

theorem sequenceOf_ok (res blurR : Int) (positions : List Int) (start : Int) (stop? : Option Int) (v : List Nat) :
    sequenceOf res blurR positions start stop? = .ok v ↔
      ∃ v0, vectorise positions res start stop? = .ok v0 ∧ blur v0 blurR = .ok v := by
  unfold sequenceOf
  exact bind_ok _ _ _

theorem sequenceOf_error (res blurR : Int) (positions : List Int) (start : Int) (stop? : Option Int) (e : Err) :
    sequenceOf res blurR positions start stop? = .error e ↔
      vectorise positions res start stop? = .error e ∨
      ∃ v0, vectorise positions res start stop? = .ok v0 ∧ blur v0 blurR = .error e := by
  unfold sequenceOf
  exact bind_error _ _ _

theorem querySequence_ok (c : SecCfg) (q : OMap) (rev : Bool) (qs : List Nat) :
    querySequence c q rev = .ok qs ↔
      ∃ s, sequenceOf c.res c.blur q.positions 0 none = .ok s ∧ qs = if rev then s.reverse else s := by
  unfold querySequence
  rw [bind_ok]
  constructor
  · rintro ⟨s, h1, h2⟩
    refine ⟨s, h1, ?_⟩
    simp only [pure, Except.pure, Except.ok.injEq] at h2
    exact h2.symm
  · rintro ⟨s, h1, h2⟩
    refine ⟨s, h1, ?_⟩
    simp only [pure, Except.pure, Except.ok.injEq]
    exact h2.symm

theorem querySequence_error (c : SecCfg) (q : OMap) (rev : Bool) (e : Err) :
    querySequence c q rev = .error e ↔ sequenceOf c.res c.blur q.positions 0 none = .error e := by
  unfold querySequence
  rw [bind_error]
  constructor
  · rintro (h | ⟨s, _, h2⟩)
    · exact h
    · simp [pure, Except.pure] at h2
  · exact fun h => Or.inl h

theorem refineCorrelation_ok (c : SecCfg) (ref q : OMap) (rev : Bool) (peak : Int) (corr : List Nat) :
    refineCorrelation c ref q rev peak = .ok corr ↔
      ∃ qs rs, querySequence c q rev = .ok qs ∧
        sequenceOf c.res c.blur ref.positions (peak - c.margin) (some (peak + q.length + c.margin)) = .ok rs ∧
        correlate rs qs = .ok corr := by
  unfold refineCorrelation
  rw [bind_ok]
  constructor
  · rintro ⟨qs, h1, h2⟩
    rw [bind_ok] at h2
    obtain ⟨rs, h2, h3⟩ := h2
    exact ⟨qs, rs, h1, h2, h3⟩
  · rintro ⟨qs, rs, h1, h2, h3⟩
    refine ⟨qs, h1, ?_⟩
    rw [bind_ok]
    exact ⟨rs, h2, h3⟩

theorem refineCorrelation_error (c : SecCfg) (ref q : OMap) (rev : Bool) (peak : Int) (e : Err) :
    refineCorrelation c ref q rev peak = .error e ↔
      querySequence c q rev = .error e ∨
      ∃ qs, querySequence c q rev = .ok qs ∧
        (sequenceOf c.res c.blur ref.positions (peak - c.margin) (some (peak + q.length + c.margin)) = .error e ∨
         ∃ rs, sequenceOf c.res c.blur ref.positions (peak - c.margin) (some (peak + q.length + c.margin)) = .ok rs ∧
          correlate rs qs = .error e) := by
  unfold refineCorrelation
  rw [bind_error]
  constructor
  · rintro (h | ⟨qs, h1, h2⟩)
    · exact Or.inl h
    · rw [bind_error] at h2
      exact Or.inr ⟨qs, h1, h2⟩
  · rintro (h | ⟨qs, h1, h2⟩)
    · exact Or.inl h
    · refine Or.inr ⟨qs, h1, ?_⟩
      rw [bind_error]
      exact h2

theorem refine_ok (c : SecCfg) (ref q : OMap) (rev : Bool) (peak : Int) (pk : List (Int × Int)) :
    refine c ref q rev peak = .ok pk ↔
      ∃ corr, refineCorrelation c ref q rev peak = .ok corr ∧
        pk = createPeaks c.keep c.res (peak - c.margin)
          ((findPeaksSecondary c.thr (corr.map Int.ofNat)).map fun p => ((p.1 : Int), p.2)) := by
  unfold refine
  rw [bind_ok]
  constructor
  · rintro ⟨corr, h1, h2⟩
    refine ⟨corr, h1, ?_⟩
    simp only [pure, Except.pure, Except.ok.injEq] at h2
    exact h2.symm
  · rintro ⟨corr, h1, h2⟩
    refine ⟨corr, h1, ?_⟩
    simp only [pure, Except.pure, Except.ok.injEq]
    exact h2.symm

theorem refine_error (c : SecCfg) (ref q : OMap) (rev : Bool) (peak : Int) (e : Err) :
    refine c ref q rev peak = .error e ↔ refineCorrelation c ref q rev peak = .error e := by
  unfold refine
  rw [bind_error]
  constructor
  · rintro (h | ⟨s, _, h2⟩)
    · exact h
    · simp [pure, Except.pure] at h2
  · exact fun h => Or.inl h

/-! ### `vecGo` is non-empty exactly when a label lies at or after the window start -/

theorem vecGo_ne_nil (res stop : Int) (hres : 1 ≤ res) : ∀ (ps : List Int) (ws : Int),
    vecGo res stop ws ps ≠ [] ↔ ∃ p ∈ ps, ws ≤ p := by
  intro ps
  induction ps with
  | nil => intro ws; simp [vecGo]
  | cons p ps ih =>
    intro ws
    by_cases hp : p < ws
    · rw [vecGo_lt _ _ _ _ _ hp, ih ws]
      constructor
      · rintro ⟨q, hq, hq2⟩; exact ⟨q, List.mem_cons_of_mem _ hq, hq2⟩
      · rintro ⟨q, hq, hq2⟩
        rcases List.mem_cons.mp hq with rfl | hq
        · omega
        · exact ⟨q, hq, hq2⟩
    · have hws : ws ≤ p := by omega
      constructor
      · intro _; exact ⟨p, List.mem_cons_self, hws⟩
      · intro _
        rw [vecGo, if_neg hp]
        obtain ⟨k, hk1, hk2, hk3, hk4⟩ :=
          vecWhile_spec res stop p hres (((p - ws) / res).toNat + 1) ws 0 hws (Nat.lt_succ_self _)
        simp only []
        generalize vecWhile res stop p (((p - ws) / res).toNat + 1) ws 0 = r at *
        obtain ⟨r1, r2, r3⟩ := r
        simp only at hk1 hk2 hk3 hk4 ⊢
        cases r3 with
        | false => simp
        | true =>
          have := (hk4 rfl).2.2
          have h1 : r1 ≠ 0 := by omega
          simp [h1]

/-! ### bit vectors -/

theorem blur_bits (v w : List Nat) (radius : Int) (h : blur v radius = .ok w) : Bits w := by
  obtain ⟨hlen, hb⟩ := blur_spec v w radius h
  intro x hx
  obtain ⟨i, hi, rfl⟩ := List.mem_iff_getElem.mp hx
  have := (hb i (by omega)).1
  simp only [List.getD_eq_getElem?_getD, List.getElem?_eq_getElem hi, Option.getD_some] at this
  omega

theorem bits_reverse {l : List Nat} (h : Bits l) : Bits l.reverse :=
  fun x hx => h x (List.mem_reverse.mp hx)

theorem sequenceOf_bits (res blurR : Int) (positions : List Int) (start : Int) (stop? : Option Int) (v : List Nat)
    (h : sequenceOf res blurR positions start stop? = .ok v) : Bits v := by
  obtain ⟨v0, _, h2⟩ := (sequenceOf_ok _ _ _ _ _ _).mp h
  exact blur_bits v0 v blurR h2

theorem querySequence_bits (c : SecCfg) (q : OMap) (rev : Bool) (qs : List Nat)
    (h : querySequence c q rev = .ok qs) : Bits qs := by
  obtain ⟨s, h1, rfl⟩ := (querySequence_ok _ _ _ _).mp h
  have := sequenceOf_bits _ _ _ _ _ _ h1
  cases rev
  · exact this
  · exact bits_reverse this

theorem dot_le_sum_left : ∀ (r q : List Nat), Bits q → dot r q ≤ sumNat r
  | [], q, _ => by simp [dot_nil_left]
  | _ :: _, [], _ => by simp [dot_nil_right]
  | x :: xs, y :: ys, h => by
    have ⟨hy, hys⟩ := bits_cons.1 h
    have ih := dot_le_sum_left xs ys hys
    rw [dot_cons, sumNat_cons]
    rcases hy with rfl | rfl <;> simp <;> omega

theorem sumNat_drop_le : ∀ (k : Nat) (l : List Nat), sumNat (l.drop k) ≤ sumNat l
  | 0, l => by simp
  | k + 1, [] => by simp
  | k + 1, x :: xs => by
    rw [List.drop_succ_cons, sumNat_cons]
    have := sumNat_drop_le k xs
    omega

/-- every entry of `corrValid a b` is a dot product of a suffix of `a` with `b` -/
theorem corrValid_mem (a b : List Nat) (y : Nat) (h : y ∈ corrValid a b) : ∃ k, y = dot (a.drop k) b := by
  by_cases hl : b.length ≤ a.length
  · obtain ⟨k, hk⟩ := List.mem_iff_getElem?.1 h
    have hlt : k < (corrValid a b).length := by
      rcases Nat.lt_or_ge k (corrValid a b).length with h' | h'
      · exact h'
      · rw [List.getElem?_eq_none h'] at hk; cases hk
    rw [corrValid_length a b hl] at hlt
    rw [corrValid_get a b k (by omega)] at hk
    cases hk
    exact ⟨k, rfl⟩
  · simp [corrValid, hl] at h

theorem correlate_le (rs qs corr : List Nat) (hr : Bits rs) (h : correlate rs qs = .ok corr) :
    ∀ y ∈ corr, y ≤ sumNat qs := by
  unfold correlate at h
  split at h
  · cases h
  · split at h
    · cases h
      intro y hy
      exact corr_le_sum rs qs hr y hy
    · cases h
      intro y hy
      obtain ⟨k, rfl⟩ := corrValid_mem qs rs y (List.mem_reverse.mp hy)
      exact Nat.le_trans (dot_le_sum_left _ _ hr) (sumNat_drop_le k qs)

theorem correlate_ok_iff (rs qs : List Nat) : (∃ corr, correlate rs qs = .ok corr) ↔ rs ≠ [] ∧ qs ≠ [] := by
  unfold correlate
  cases rs <;> cases qs <;> simp
  all_goals split <;> simp

theorem correlate_error (rs qs : List Nat) (e : Err) (h : correlate rs qs = .error e) : e = .indexError := by
  unfold correlate at h
  split at h
  · cases h; rfl
  · split at h <;> cases h

/-! ### sorting commutes with an order-preserving relabelling -/

theorem insertByKey_map {α β} (f : α → β) (key : β → Int) (a : α) (l : List α) :
    insertByKey key (f a) (l.map f) = (insertByKey (fun x => key (f x)) a l).map f := by
  induction l with
  | nil => rfl
  | cons b bs ih =>
    simp only [List.map_cons, insertByKey]
    split
    · rfl
    · rw [List.map_cons, ih]

theorem isort_map {α β} (f : α → β) (key : β → Int) (l : List α) :
    isort key (l.map f) = (isort (fun x => key (f x)) l).map f := by
  induction l with
  | nil => rfl
  | cons b bs ih =>
    simp only [List.map_cons, isort]
    rw [ih, insertByKey_map]

theorem selectPeaks_map {α β} (f : α → β) (n : Nat) (score : β → Int) (l : List α) :
    selectPeaks n score (l.map f) = (selectPeaks n (fun x => score (f x)) l).map f := by
  unfold selectPeaks isortDesc
  rw [isort_map, List.map_take]

theorem selectPeaks_subset {α} (n : Nat) (score : α → Int) (l : List α) :
    ∀ x ∈ selectPeaks n score l, x ∈ l := by
  intro x hx
  obtain ⟨_, _, rest, hperm, _⟩ := selectPeaks_spec n score l
  exact hperm.mem_iff.mp (List.mem_append_left _ hx)

/-! ### when `sequenceOf` succeeds -/

theorem blur_exists (v : List Nat) (radius : Int) (h : 0 ≤ radius) : ∃ w, blur v radius = .ok w := by
  unfold blur
  rw [if_neg (by omega)]
  exact ⟨_, rfl⟩

theorem sequenceOf_exists (res blurR : Int) (positions : List Int) (start : Int) (stop? : Option Int)
    (hres : 1 ≤ res) (hb : 0 ≤ blurR) (hp : positions ≠ []) :
    ∃ v, sequenceOf res blurR positions start stop? = .ok v := by
  obtain ⟨v0, h0⟩ := (vectorise_ok positions res start stop?).mpr ⟨hres, Or.inl hp⟩
  obtain ⟨w, hw⟩ := blur_exists v0 blurR hb
  exact ⟨w, (sequenceOf_ok _ _ _ _ _ _).mpr ⟨v0, h0, hw⟩⟩

theorem sequenceOf_no_error (res blurR : Int) (positions : List Int) (start : Int) (stop? : Option Int) (e : Err)
    (hres : 1 ≤ res) (hb : 0 ≤ blurR) (hp : positions ≠ [])
    (h : sequenceOf res blurR positions start stop? = .error e) : False := by
  obtain ⟨v, hv⟩ := sequenceOf_exists res blurR positions start stop? hres hb hp
  rw [hv] at h
  cases h

theorem sequenceOf_ne_nil (res blurR : Int) (positions : List Int) (start : Int) (stop? : Option Int) (v : List Nat)
    (hres : 1 ≤ res) (h : sequenceOf res blurR positions start stop? = .ok v) :
    v ≠ [] ↔ ∃ p ∈ positions, start ≤ p := by
  obtain ⟨v0, h1, h2⟩ := (sequenceOf_ok _ _ _ _ _ _).mp h
  obtain ⟨_, rfl⟩ := vectorise_eq positions res start stop? v0 h1
  have hlen := (blur_spec _ v blurR h2).1
  rw [← vecGo_ne_nil res (stopEff' positions stop?) hres positions start]
  rw [← List.length_pos_iff, ← List.length_pos_iff, hlen]

end Coma.Proofs.Peaks
