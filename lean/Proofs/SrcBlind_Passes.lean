import Proofs.SrcBlind_Align
import Proofs.SrcBlind_Conflict
/-! every pass after the candidate construction commutes with the erasure of `source` -/
namespace Coma.Proofs.SrcBlind
open Coma Coma.Spec

/-! ### `Except` / `mapM` plumbing -/

theorem mapM_map_comm {α β γ} (f : α → Except Err β) (g : β → γ) : ∀ (l : List α),
    (l.mapM f).map (List.map g) = l.mapM (fun x => (f x).map g)
  | [] => rfl
  | a :: l => by
    simp only [List.mapM_cons, ← mapM_map_comm f g l]
    cases f a <;> cases l.mapM f <;> rfl

theorem mapM_map_congr {α β γ} (f f' : α → Except Err β) (g : β → γ) (l : List α)
    (h : ∀ x ∈ l, (f x).map g = (f' x).map g) :
    (l.mapM f).map (List.map g) = (l.mapM f').map (List.map g) := by
  rw [mapM_map_comm, mapM_map_comm]
  induction l with
  | nil => rfl
  | cons a l ih =>
    simp only [List.mapM_cons, h a List.mem_cons_self, ih (fun x hx => h x (List.mem_cons_of_mem _ hx))]

theorem mapM_map_list {α β γ} (f : β → Except Err γ) (g : α → β) (l : List α) :
    (l.map g).mapM f = l.mapM (fun x => f (g x)) := by
  induction l with
  | nil => rfl
  | cons a l ih => simp only [List.map_cons, List.mapM_cons, ih]

/-! ### best candidate -/

theorem bestRow_E (rows : List Row) : bestRow (rows.map E) = (bestRow rows).map E := by
  unfold bestRow isortDesc
  rw [isort_map E (fun r => - r.confidence) (fun r => - r.confidence) (fun _ => rfl), List.head?_map]

def keepRow : Option Row → Option Row
  | some row => if row.pairs.isEmpty then none else some row
  | none     => none

theorem executeSingle_eq (cfg : Cfg) (refs : List OMap) (t : SeedTable) (qs : List OMap) (it : Int) :
    executeSingle cfg refs t qs it =
      (qs.mapM fun q => perQuery cfg refs (t.lookup q.key) q it).map (List.filterMap keepRow) := by
  unfold executeSingle
  cases (qs.mapM fun q => perQuery cfg refs (t.lookup q.key) q it) with
  | error e => rfl
  | ok rs => rfl

theorem keepRow_E (o : Option Row) : keepRow (o.map E) = (keepRow o).map E := by
  cases o with
  | none => rfl
  | some r =>
    simp only [Option.map_some, keepRow, E_pairs, List.isEmpty_map]
    split <;> rfl

theorem filterMap_keepRow_E (l : List (Option Row)) :
    (l.map (Option.map E)).filterMap keepRow = (l.filterMap keepRow).map E := by
  rw [List.filterMap_map, List.map_filterMap]
  congr 1
  funext o
  simp only [Function.comp, keepRow_E]

theorem bind_bestRow_congr (X Y : Except Err (List Row)) (h : X.map (List.map E) = Y.map (List.map E)) :
    (X >>= fun rows => pure (bestRow rows)).map (Option.map E) =
    (Y >>= fun rows => pure (bestRow rows)).map (Option.map E) := by
  cases X <;> cases Y <;> simp [Except.map, bind, Except.bind, pure, Except.pure] at h ⊢
  · exact h
  · rw [← bestRow_E, ← bestRow_E, h]

theorem perQuery_E (cfg : Cfg) (refs : List OMap) (seeds : List Seed) (q : OMap) (it it' : Int) :
    (perQuery cfg refs seeds q it).map (Option.map E) = (perQuery cfg refs seeds q it').map (Option.map E) := by
  unfold perQuery
  split
  · rfl
  · have h := mapM_map_congr
      (fun s : Seed => match refs.find? (fun r => r.id = s.refId) with
        | none   => Except.error Err.stopIteration
        | some r => alignerAlign cfg.P cfg.C r q s.peaks s.rev it)
      (fun s : Seed => match refs.find? (fun r => r.id = s.refId) with
        | none   => Except.error Err.stopIteration
        | some r => alignerAlign cfg.P cfg.C r q s.peaks s.rev it') E seeds (by
        intro s _
        split
        · rfl
        · exact alignerAlign_E _ _ _ _ _ _ _ _)
    exact bind_bestRow_congr _ _ h

theorem executeSingle_E (cfg : Cfg) (refs : List OMap) (t : SeedTable) (qs : List OMap) (it it' : Int) :
    (executeSingle cfg refs t qs it).map (List.map E) = (executeSingle cfg refs t qs it').map (List.map E) := by
  rw [executeSingle_eq, executeSingle_eq]
  have h := mapM_map_congr (fun q : OMap => perQuery cfg refs (t.lookup q.key) q it)
    (fun q : OMap => perQuery cfg refs (t.lookup q.key) q it') (Option.map E) qs
    (fun q _ => perQuery_E cfg refs _ q it it')
  revert h
  generalize List.mapM (fun q : OMap => perQuery cfg refs (t.lookup q.key) q it) qs = X
  generalize List.mapM (fun q : OMap => perQuery cfg refs (t.lookup q.key) q it') qs = Y
  intro h
  cases X <;> cases Y <;> simp [Except.map] at h ⊢
  · exact h
  · rw [← filterMap_keepRow_E, ← filterMap_keepRow_E, h]

/-! ### selection -/

theorem filterBestPerQuery_E (rows : List Row) :
    filterBestPerQuery (rows.map E) = (filterBestPerQuery rows).map E := by
  unfold filterBestPerQuery isortDesc
  rw [isort_map E (fun r => - r.confidence) (fun r => - r.confidence) (fun _ => rfl),
    isort_map E (fun r => r.queryId) (fun r => r.queryId) (fun _ => rfl),
    groupAdj_map E (fun r => r.queryId) (fun r => r.queryId) (fun _ => rfl),
    List.filterMap_map, List.map_filterMap]
  congr 1
  funext g
  simp only [Function.comp, List.head?_map]

/-! ### second pass -/

theorem sortedPairs_E (r : Row) : (E r).sortedPairs = r.sortedPairs.map eP := by
  unfold Row.sortedPairs
  rw [E_pairs, isort_map eP (fun p : Pr => p.r.pos) (fun p : Pr => p.r.pos) (fun _ => rfl)]

theorem unalignedFragments_E (r : Row) (qs : List OMap) :
    unalignedFragments (E r) qs = unalignedFragments r qs := by
  unfold unalignedFragments
  simp only [sortedPairs_E, head?_getD_map, getLast?_getD_map, eP_q]
  rfl

theorem secondPass_E (cfg : Cfg) (refs : List OMap) (t : SeedTable) (qs : List OMap) (first first' : List Row)
    (it it' : Int) (h : first.map E = first'.map E) :
    (secondPass cfg refs t qs first it).map (List.map E) =
    (secondPass cfg refs t qs first' it').map (List.map E) := by
  unfold secondPass
  have hf : first.mapM (fun r => unalignedFragments r qs) = first'.mapM (fun r => unalignedFragments r qs) := by
    have h1 := mapM_map_list (fun r => unalignedFragments r qs) E first
    have h2 := mapM_map_list (fun r => unalignedFragments r qs) E first'
    simp only [unalignedFragments_E] at h1 h2
    rw [← h1, ← h2, h]
  rw [hf]
  cases first'.mapM (fun r => unalignedFragments r qs) with
  | error e => rfl
  | ok frags =>
    simp only [bind, Except.bind, pure, Except.pure]
    have h := executeSingle_E cfg refs t frags.flatten it it'
    revert h
    generalize executeSingle cfg refs t frags.flatten it = X
    generalize executeSingle cfg refs t frags.flatten it' = Y
    intro h
    cases X <;> cases Y <;> simp [Except.map] at h ⊢
    · exact h
    · have hc : ∀ l : List Row, List.map (E ∘ fun r => { r with alignedRest := true }) l =
          (l.map E).map (fun r => { r with alignedRest := true }) := by
        intro l; rw [List.map_map]; rfl
      rw [hc, hc, h]

/-! ### joining -/

theorem checkOverlap_E (a b : Row) (d : Int) : checkOverlap (E a) (E b) d = checkOverlap a b d := rfl

theorem isOneToOne_E (r : Row) : (E r).isOneToOneAndCollinear = r.isOneToOneAndCollinear := by
  unfold Row.isOneToOneAndCollinear
  simp only [E_pairs, List.map_map, List.isEmpty_map]
  rfl

def eJ : List Row × List Row → List Row × List Row := fun x => (x.1.map E, x.2.map E)

theorem joinRows_E (P : Params) (a b : Row) :
    joinRows P (E a) (E b) = (joinRows P a b).map (Option.map E) := by
  unfold joinRows
  rw [E_pairs, E_pairs, E_segments, E_segments]
  cases a.pairs with
  | nil => rfl
  | cons pa _ =>
    cases b.pairs with
    | nil => rfl
    | cons pb _ =>
      cases a.segments with
      | nil => rfl
      | cons sa _ =>
        cases b.segments with
        | nil => rfl
        | cons sb _ =>
          simp only [List.map_cons, bind, Except.bind, pure, Except.pure]
          have hc : ∀ l r : Seg, Row.create P [eS l, eS r] a.queryId a.referenceId a.queryLength a.referenceLength a.rev
              = E (Row.create P [l, r] a.queryId a.referenceId a.queryLength a.referenceLength a.rev) :=
            fun l r => create_eS P [l, r] _ _ _ _ _
          have key : ∀ sa sb : Seg,
              (resolvePair P (eS sa) (eS sb) >>= fun v => pure
                    (if (Row.create P [v.fst, v.snd] (E a).queryId (E a).referenceId (E a).queryLength
                          (E a).referenceLength (E a).rev).isOneToOneAndCollinear = true then
                      some (Row.create P [v.fst, v.snd] (E a).queryId (E a).referenceId (E a).queryLength
                          (E a).referenceLength (E a).rev)
                    else none) : Except Err (Option Row)) =
              Except.map (Option.map E)
                (resolvePair P sa sb >>= fun v => pure
                    (if (Row.create P [v.fst, v.snd] a.queryId a.referenceId a.queryLength a.referenceLength
                          a.rev).isOneToOneAndCollinear = true then
                      some (Row.create P [v.fst, v.snd] a.queryId a.referenceId a.queryLength a.referenceLength a.rev)
                    else none)) := by
            intro sa sb
            rw [resolvePair_e]
            cases resolvePair P sa sb with
            | error e => rfl
            | ok x =>
              show Except.ok (if (Row.create P [eS x.1, eS x.2] a.queryId a.referenceId a.queryLength
                  a.referenceLength a.rev).isOneToOneAndCollinear = true then
                  some (Row.create P [eS x.1, eS x.2] a.queryId a.referenceId a.queryLength
                  a.referenceLength a.rev) else none) = _
              rw [hc, isOneToOne_E]
              simp only [Except.map, bind, Except.bind, pure, Except.pure]
              split <;> rfl
          by_cases hlt : pa.r.pos < pb.r.pos
          · rw [if_pos (show (eP pa).r.pos < (eP pb).r.pos from hlt), if_pos hlt]; exact key sa sb
          · rw [if_neg (show ¬ (eP pa).r.pos < (eP pb).r.pos from hlt), if_neg hlt]; exact key sb sa

theorem resolveGroups_E (P : Params) (d : Int) : ∀ (gs : List (List Row)),
    resolveGroups P d (gs.map (List.map E)) = (resolveGroups P d gs).map eJ
  | [] => rfl
  | g :: gs => by
    simp only [List.map_cons, resolveGroups, resolveGroups_E P d gs]
    cases resolveGroups P d gs with
    | error e => rfl
    | ok js =>
      obtain ⟨j, s⟩ := js
      simp only [Except.map, bind, Except.bind, pure, Except.pure, eJ]
      match g with
      | [] => rfl
      | [x] => rfl
      | x :: y :: rest =>
        simp only [List.map_cons, checkOverlap_E, joinRows_E]
        split
        · cases joinRows P x y with
          | error e => rfl
          | ok o =>
            cases o with
            | none => simp [Except.map, List.map_append]
            | some r => rfl
        · simp [List.map_append]

theorem resolveRows_E (P : Params) (d : Int) (rows : List Row) :
    resolveRows P d (rows.map E) = (resolveRows P d rows).map eJ := by
  unfold resolveRows
  dsimp only
  rw [isort_map E (fun r => r.referenceId) (fun r => r.referenceId) (fun _ => rfl),
    groupAdj_map E (fun r => r.referenceId) (fun r => r.referenceId) (fun _ => rfl),
    ← resolveGroups_E]
  congr 1
  generalize groupAdj (fun r => r.referenceId) (isort (fun r => r.referenceId) rows) = G
  induction G with
  | nil => rfl
  | cons g G ih =>
    simp only [List.map_cons, List.flatMap_cons, List.map_append, ih]
    rw [isort_map E (fun r => r.queryId) (fun r => r.queryId) (fun _ => rfl),
      groupAdj_map E (fun r => r.queryId) (fun r => r.queryId) (fun _ => rfl)]

end Coma.Proofs.SrcBlind
