import Props.Defs
import Coma.Corr
namespace Coma.Proofs
open Coma Coma.Spec

/-- a bit vector: every entry is 0 or 1 -/
def Bits (v : List Nat) : Prop := ∀ x ∈ v, x = 0 ∨ x = 1

end Coma.Proofs

namespace Coma.Proofs.Corr
open Coma Coma.Proofs

theorem cvf_length (q : List Nat) :
    ∀ (fuel : Nat) (ref : List Nat), (corrValidFrom q fuel ref).length = fuel
  | 0, _ => rfl
  | f + 1, ref => by simp [corrValidFrom, cvf_length q f]

theorem cvf_get (q : List Nat) :
    ∀ (fuel : Nat) (ref : List Nat) (k : Nat), k < fuel →
      (corrValidFrom q fuel ref)[k]? = some (dot (ref.drop k) q)
  | 0, _, k, h => by omega
  | f + 1, ref, 0, _ => by simp [corrValidFrom]
  | f + 1, ref, k + 1, h => by
    simp only [corrValidFrom, List.getElem?_cons_succ]
    rw [cvf_get q f (ref.drop 1) k (by omega), List.drop_drop, Nat.add_comm]

theorem bits_cons {x : Nat} {xs : List Nat} : Bits (x :: xs) ↔ (x = 0 ∨ x = 1) ∧ Bits xs := by
  simp [Bits]

theorem bits_drop {l : List Nat} (h : Bits l) (k : Nat) : Bits (l.drop k) :=
  fun x hx => h x (List.mem_of_mem_drop hx)

theorem bits_take {l : List Nat} (h : Bits l) (k : Nat) : Bits (l.take k) :=
  fun x hx => h x (List.mem_of_mem_take hx)

theorem dot_nil_left (q : List Nat) : dot [] q = 0 := by
  cases q <;> rfl

theorem dot_nil_right (r : List Nat) : dot r [] = 0 := by
  cases r <;> rfl

theorem dot_cons (x y : Nat) (xs ys : List Nat) : dot (x :: xs) (y :: ys) = x * y + dot xs ys := rfl

theorem sumNat_cons (x : Nat) (xs : List Nat) : sumNat (x :: xs) = x + sumNat xs := rfl

theorem dot_le_sum : ∀ (r q : List Nat), Bits r → dot r q ≤ sumNat q
  | [], q, _ => by simp [dot_nil_left]
  | _ :: _, [], _ => by simp [dot_nil_right]
  | x :: xs, y :: ys, h => by
    have ⟨hx, hxs⟩ := bits_cons.1 h
    have ih := dot_le_sum xs ys hxs
    rw [dot_cons, sumNat_cons]
    rcases hx with rfl | rfl <;> simp <;> omega

theorem dot_eq_sum : ∀ (q r : List Nat), Bits q → q.length ≤ r.length →
    (∀ j, q.getD j 0 = 1 → r.getD j 0 = 1) → dot r q = sumNat q
  | [], r, _, _, _ => by simp [dot_nil_right, sumNat]
  | y :: ys, [], _, hl, _ => by simp at hl
  | y :: ys, x :: xs, h, hl, hm => by
    have ⟨hy, hys⟩ := bits_cons.1 h
    have ih := dot_eq_sum ys xs hys (by simpa using hl) (fun j hj => by
      have := hm (j + 1) (by simpa using hj)
      simpa using this)
    rw [dot_cons, sumNat_cons, ih]
    rcases hy with rfl | rfl
    · simp
    · have : x = 1 := by simpa using hm 0 (by simp)
      subst this; rfl

theorem getD_drop (l : List Nat) (k j : Nat) : (l.drop k).getD j 0 = l.getD (k + j) 0 := by
  simp [List.getD_eq_getElem?_getD, List.getElem?_drop]

theorem ones_succ (n : Nat) : ones (n + 1) = 1 :: ones n := by
  simp [ones, List.replicate_succ]

theorem ones_length (n : Nat) : (ones n).length = n := by simp [ones]

theorem dot_ones : ∀ (n : Nat) (r : List Nat), dot r (ones n) = sumNat (r.take n)
  | 0, r => by simp [ones, dot_nil_right, sumNat]
  | n + 1, [] => by simp [dot_nil_left, sumNat]
  | n + 1, x :: xs => by
    rw [ones_succ, dot_cons, List.take_succ_cons, sumNat_cons, dot_ones n xs]; simp

theorem dot_take : ∀ (q r : List Nat), dot r q = dot (r.take q.length) q
  | [], r => by simp [dot_nil_right]
  | y :: ys, [] => by simp
  | y :: ys, x :: xs => by
    rw [List.length_cons, List.take_succ_cons, dot_cons, dot_cons, ← dot_take ys xs]

/-- two bit vectors of equal length: twice the overlap is at most the total label count, with
    equality exactly when they coincide -/
theorem overlap : ∀ (w q : List Nat), Bits w → Bits q → w.length = q.length →
    2 * dot w q ≤ sumNat w + sumNat q ∧ (2 * dot w q = sumNat w + sumNat q ↔ w = q)
  | [], [], _, _, _ => by simp [dot_nil_left, sumNat]
  | [], _ :: _, _, _, hl => by simp at hl
  | _ :: _, [], _, _, hl => by simp at hl
  | x :: xs, y :: ys, hw, hq, hl => by
    have ⟨hx, hxs⟩ := bits_cons.1 hw
    have ⟨hy, hys⟩ := bits_cons.1 hq
    have ⟨ih1, ih2⟩ := overlap xs ys hxs hys (by simpa using hl)
    rw [dot_cons, sumNat_cons, sumNat_cons, List.cons.injEq, ← ih2]
    rcases hx with rfl | rfl <;> rcases hy with rfl | rfl <;> simp <;> omega

theorem corrValid_get' (ref q : List Nat) (k : Nat) (hk : k + q.length ≤ ref.length) :
    (corrValid ref q)[k]? = some (dot (ref.drop k) q) := by
  have h : q.length ≤ ref.length := by omega
  rw [corrValid, if_pos h]
  exact cvf_get q _ ref k (by omega)

theorem norm2_get (ref q : List Nat) (k : Nat) (hk : k + q.length ≤ ref.length) :
    (norm2 ref q)[k]? = some (sumNat ((ref.drop k).take q.length) + sumNat q) := by
  rw [norm2, List.getElem?_map,
    corrValid_get' ref (ones q.length) k (by rw [ones_length]; exact hk), dot_ones]
  rfl

theorem normalised_get (ref q : List Nat) (k : Nat) (hk : k + q.length ≤ ref.length) :
    (normalised ref q)[k]? =
      some (2 * dot ((ref.drop k).take q.length) q,
            sumNat ((ref.drop k).take q.length) + sumNat q) := by
  rw [normalised, List.getElem?_zipWith, corrValid_get' ref q k hk, norm2_get ref q k hk,
    ← dot_take]

theorem window_length (ref q : List Nat) (k : Nat) (hk : k + q.length ≤ ref.length) :
    ((ref.drop k).take q.length).length = q.length := by
  simp; omega

theorem corrValid_length' (ref q : List Nat) (h : q.length ≤ ref.length) :
    (corrValid ref q).length = ref.length - q.length + 1 := by
  rw [corrValid, if_pos h, cvf_length]

end Coma.Proofs.Corr

namespace Coma.Proofs
open Coma Coma.Spec Coma.Proofs.Corr

theorem corrValid_length (ref q : List Nat) (h : q.length ≤ ref.length) :
    (corrValid ref q).length = ref.length - q.length + 1 :=
  corrValid_length' ref q h

/-- the correlation at lag k is the overlap of the query with the reference window at k -/
theorem corrValid_get (ref q : List Nat) (k : Nat) (hk : k + q.length ≤ ref.length) :
    (corrValid ref q)[k]? = some (dot (ref.drop k) q) :=
  corrValid_get' ref q k hk

/-- no lag scores more than the number of query labels -/
theorem corr_le_sum (ref q : List Nat) (hr : Bits ref) (c : Nat) (h : c ∈ corrValid ref q) : c ≤ sumNat q := by
  by_cases hl : q.length ≤ ref.length
  · obtain ⟨k, hk⟩ := List.mem_iff_getElem?.1 h
    have hlt : k < (corrValid ref q).length := by
      rcases Nat.lt_or_ge k (corrValid ref q).length with h' | h'
      · exact h'
      · rw [List.getElem?_eq_none h'] at hk; cases hk
    rw [corrValid_length ref q hl] at hlt
    rw [corrValid_get ref q k (by omega)] at hk
    cases hk
    exact dot_le_sum _ _ (bits_drop hr k)
  · simp [corrValid, hl] at h

/-- at a lag where every query label meets a reference label the correlation is the number of
    query labels: the global maximum -/
theorem corr_at_match (ref q : List Nat) (hq : Bits q) (k : Nat) (hk : k + q.length ≤ ref.length)
    (hm : ∀ j, q.getD j 0 = 1 → ref.getD (k + j) 0 = 1) :
    (corrValid ref q)[k]? = some (sumNat q) := by
  rw [corrValid_get ref q k hk, dot_eq_sum q (ref.drop k) hq (by simp; omega)
    (fun j hj => by rw [getD_drop]; exact hm j hj)]

/-- the normalised correlation never exceeds 1 … -/
theorem normalised_le_one (ref q : List Nat) (hr : Bits ref) (hq : Bits q) (x : Nat × Nat) (h : x ∈ normalised ref q) :
    x.1 ≤ x.2 := by
  by_cases hl : q.length ≤ ref.length
  · obtain ⟨k, hk⟩ := List.mem_iff_getElem?.1 h
    have hlt : k < (normalised ref q).length := by
      rcases Nat.lt_or_ge k (normalised ref q).length with h' | h'
      · exact h'
      · rw [List.getElem?_eq_none h'] at hk; cases hk
    have hlt' : k < (corrValid ref q).length := by
      rw [normalised, List.length_zipWith] at hlt; omega
    rw [corrValid_length ref q hl] at hlt'
    have hk' : k + q.length ≤ ref.length := by omega
    rw [normalised_get ref q k hk'] at hk
    cases hk
    exact (overlap _ q (bits_take (bits_drop hr k) _) hq (window_length ref q k hk')).1
  · simp [normalised, corrValid, hl] at h

/-- … and is exactly 1 at lag k iff the reference window at k is an exact copy of the query -/
theorem normalised_eq_one_iff (ref q : List Nat) (hr : Bits ref) (hq : Bits q) (k : Nat) (hk : k + q.length ≤ ref.length)
    (x : Nat × Nat) (hx : (normalised ref q)[k]? = some x) :
    x.1 = x.2 ↔ (ref.drop k).take q.length = q := by
  rw [normalised_get ref q k hk] at hx
  cases hx
  exact (overlap _ q (bits_take (bits_drop hr k) _) hq (window_length ref q k hk)).2

end Coma.Proofs
