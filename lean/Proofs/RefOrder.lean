/-
  Proofs/RefOrder.lean — C10, clause "references … listed in a different order".

  The model looks a reference up by its id (`List.find?`), in `perQuery` (Coma/Passes.lean) and in `deriveSeed`
  (Coma/Seeding.lean), and nowhere else uses the reference list.  With distinct reference ids (the reader guarantees
  them: C17) the order of the list is therefore irrelevant to the whole run, and the selection of the seed peaks
  (`selectPeaks`: stable descending sort by score, first `count`) does not depend on the order in which the peaks of
  the references arrive as long as no two of them have the same score.
-/
import Proofs.SeedingGlue
namespace Coma.Proofs
open Coma Coma.Spec

theorem perQuery_ref_perm (cfg : Cfg) (refs refs' : List OMap)
    (hp : refs.Perm refs') (hn : (refs.map (·.id)).Nodup) :
    perQuery cfg refs' = perQuery cfg refs := by
  funext seeds q it
  unfold perQuery
  simp only [find?_id_perm refs refs' _ hp hn]

theorem executeSingle_ref_perm (cfg : Cfg) (refs refs' : List OMap)
    (hp : refs.Perm refs') (hn : (refs.map (·.id)).Nodup) :
    @executeSingle cfg refs' = @executeSingle cfg refs := by
  funext t qs it
  unfold executeSingle
  rw [perQuery_ref_perm cfg refs refs' hp hn]

/-- the whole run (every mode), given the seed table, does not depend on the order of the reference list -/
theorem execute_ref_perm (cfg : Cfg) (mode : Mode) (refs refs' : List OMap) (t : SeedTable) (qs : List OMap) (it : Int)
    (hp : refs.Perm refs') (hn : (refs.map (·.id)).Nodup) :
    execute cfg mode refs' t qs it = execute cfg mode refs t qs it := by
  have hs : @executeSingle cfg refs' = @executeSingle cfg refs := executeSingle_ref_perm cfg refs refs' hp hn
  unfold execute secondPass
  rw [hs]

/-- the secondary stage (derivation of the seed table from the selected primary peaks) does not depend on it either -/
theorem deriveTable_ref_perm (c : SecCfg) (refs refs' qs : List OMap) (pt : PTable)
    (hp : refs.Perm refs') (hn : (refs.map (·.id)).Nodup) :
    deriveTable c refs' qs pt = deriveTable c refs qs pt := by
  have hd : deriveSeed c refs' = deriveSeed c refs := by
    funext q s
    unfold deriveSeed
    rw [find?_id_perm refs refs' s.refId hp hn]
  induction pt with
  | nil => simp only [deriveTable]
  | cons e tl ih =>
    obtain ⟨k, ss⟩ := e
    simp only [deriveTable, hd, ih]

/-- `PeaksSelector.selectPeaks`: with pairwise different scores the selected peaks (and their order) do not depend on
    the order in which the peaks arrive, i.e. on the order of the references they come from -/
theorem selectPeaks_perm {α} (count : Nat) (score : α → Int) (peaks peaks' : List α) (hp : peaks.Perm peaks')
    (hinj : ∀ a ∈ peaks, ∀ b ∈ peaks, score a = score b → a = b) :
    selectPeaks count score peaks' = selectPeaks count score peaks := by
  have hperm : (isortDesc score peaks).Perm peaks := isort_perm _ _
  have hperm' : (isortDesc score peaks').Perm peaks' := isort_perm _ _
  have hs : ∀ l, (isortDesc score l).Pairwise (fun x y => score y ≤ score x) := by
    intro l
    have := List.pairwise_map.mp (isort_sorted (fun a => - score a) l)
    refine this.imp ?_
    intro a b h
    omega
  have heq : isortDesc score peaks' = isortDesc score peaks := by
    refine List.Perm.eq_of_pairwise ?_ (hs _) (hs _) (hperm'.trans (hp.symm.trans hperm.symm))
    intro a b ha hb h1 h2
    exact hinj a (hp.symm.subset (hperm'.subset ha)) b (hperm.subset hb) (by omega)
  unfold selectPeaks
  rw [heq]

end Coma.Proofs
