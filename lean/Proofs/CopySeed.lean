/-
  Proofs/CopySeed.lean — C06 for the SECONDARY seeding stage, at label level, default resolution and blur:
  a query that is an exact copy of n ≥ 13 consecutive reference labels (spacing ≥ 2 kb, forward strand)
  gets, from `refine`'s correlation and `find_peaks`, a seed within 200 bp of the true placement —
  provided the refinement window starts at least 500 bp before the first copied label and contains the
  reference label that follows the copied window.
-/
import Proofs.Peaks
import Proofs.PeaksMax
import Proofs.CopySeed_Setup
import Proofs.CopySeed_Peak
namespace Coma.Proofs
open Coma

/-- the hypotheses, bundled -/
structure CopyInWindow (c : SecCfg) (ref q : OMap) (peak : Int) (i n : Nat) : Prop where
  res    : c.res = 100
  blur   : c.blur = 4
  thr    : c.thr ≤ 27
  many   : 13 ≤ n
  gaps   : ref.positions.Pairwise (fun a b => a + 2000 ≤ b)
  nonneg : ∀ p ∈ ref.positions, 0 ≤ p
  inside : i + n < ref.positions.length
  copy   : q.positions = ((ref.positions.drop i).take n).map (fun p => p - ref.positions.getD i 0)
  start  : peak - c.margin + 500 ≤ ref.positions.getD i 0
  next   : ref.positions.getD (i + n) 0 ≤ peak + q.length + c.margin
  stopnz : peak + q.length + c.margin ≠ 0

/-- MAIN THEOREM.  Some peak that passes `find_peaks` in `refine` lies within 200 bp of the true placement
    `ref.positions[i]` (the reference coordinate of the query's coordinate 0). -/
theorem secondary_seed_near_copy (c : SecCfg) (ref q : OMap) (peak : Int) (i n : Nat)
    (H : CopyInWindow c ref q peak i n) :
    ∃ corr, refineCorrelation c ref q false peak = .ok corr ∧
      ∃ p h, (p, h) ∈ findPeaksSecondary c.thr (corr.map Int.ofNat) ∧
        toBp (p : Int) 100 (peak - c.margin) - ref.positions.getD i 0 ≤ 200 ∧
        ref.positions.getD i 0 - toBp (p : Int) 100 (peak - c.margin) ≤ 200 := by
  obtain ⟨hres, hblur, hthr, hmany, hgaps, _, hinside, hcopy, hstart, hnext, hstopnz⟩ := H
  have hRne : ref.positions ≠ [] := by
    intro h; rw [h] at hinside; simp at hinside
  have hQlen : q.positions.length = n := by
    rw [hcopy]; exact CopySeed.copy_length _ i n (by omega)
  have hQne : q.positions ≠ [] := by
    intro h; rw [h] at hQlen; simp at hQlen; omega
  obtain ⟨qv, hqv⟩ := Peaks.sequenceOf_exists 100 4 q.positions 0 none (by omega) (by omega) hQne
  obtain ⟨rv, hrv⟩ := Peaks.sequenceOf_exists 100 4 ref.positions (peak - c.margin)
    (some (peak + q.length + c.margin)) (by omega) (by omega) hRne
  have G := CopySeed.geo_of ref.positions q.positions i n (peak - c.margin) (peak + q.length + c.margin) qv rv
    (by omega) hgaps hinside hcopy (by omega) hnext hstopnz hqv hrv
  have hkl := CopySeed.klen G
  have hk0 : 5 ≤ CopySeed.rb (fun m => ref.positions.getD m 0) (peak - c.margin) i :=
    (CopySeed.geo_label G 0 (by omega)).2.2.1
  have hql : 21 ≤ qv.length := (CopySeed.geo_label G 0 (by omega)).2.2.2.1
  have hqs : querySequence c q false = .ok qv :=
    (Peaks.querySequence_ok c q false qv).mpr ⟨qv, by rw [hres, hblur]; exact hqv, by simp⟩
  have hrne : rv ≠ [] := by
    intro h; rw [h] at hkl; simp at hkl
  have hqne : qv ≠ [] := by
    intro h; rw [h] at hql; simp at hql
  have hcorr : correlate rv qv = .ok (corrValid rv qv) := by
    unfold correlate
    rw [if_neg (by simp [hrne, hqne]), if_pos (by omega)]
  refine ⟨corrValid rv qv, (Peaks.refineCorrelation_ok c ref q false peak _).mpr
    ⟨qv, rv, hqs, by rw [hres, hblur]; exact hrv, hcorr⟩, ?_⟩
  generalize hk0def : CopySeed.rb (fun m => ref.positions.getD m 0) (peak - c.margin) i = k0 at *
  have g1 := corrValid_get rv qv (k0 - 1) (by omega)
  have g2 := corrValid_get rv qv k0 (by omega)
  have g3 := corrValid_get rv qv (k0 + 1) (by omega)
  have g4 := corrValid_get rv qv (k0 + 2) (by omega)
  have e : ∀ (k d : Nat), (corrValid rv qv)[k]? = some d →
      ((corrValid rv qv).map Int.ofNat)[k]? = some ((d : Nat) : Int) := by
    intro k d h; rw [List.getElem?_map, h]; rfl
  have c1 := CopySeed.corr_I G
  have c2 := CopySeed.corr_II G
  have c3 := CopySeed.corr_III G
  have c4 := CopySeed.corr_IV G
  rw [hk0def] at c1 c2 c3
  obtain ⟨p, h, hmem, hp⟩ := CopySeed.peak_of_four c.thr ((corrValid rv qv).map Int.ofNat) k0 _ _ _ _
    ((n : Int) - 1) (by omega) (e _ _ g1) (e _ _ g2) (e _ _ g3) (e _ _ g4) (by omega) (by omega) (by omega)
    (by
      refine Rat.le_trans hthr ?_
      have h27 : ((27 : Int) : Rat) ≤ ((dot (List.drop k0 rv) qv : Nat) : Int) :=
        Rat.intCast_le_intCast.mpr (by omega)
      simpa using h27)
    (by
      obtain ⟨_, _, hin⟩ := maxInit0_spec ((corrValid rv qv).map Int.ofNat)
      rcases hin with h | h
      · rw [h]; omega
      · obtain ⟨y, hy, hyeq⟩ := List.mem_map.mp h
        have := Peaks.correlate_le rv qv _ (Peaks.sequenceOf_bits _ _ _ _ _ rv hrv) hcorr y hy
        rw [← hyeq]
        show (y : Int) ≤ _
        omega)
  refine ⟨p, h, hmem, ?_⟩
  subst hk0def
  rcases hp with rfl | rfl
  · simp only [CopySeed.rb, toBp]
    omega
  · simp only [CopySeed.rb, toBp]
    omega

end Coma.Proofs
