import Proofs.Conflict_Cases
import Proofs.Conflict_Slice
namespace Coma.Proofs.Conflict
open Coma Coma.Spec

theorem startPos_empty {S : Seg} (h : S.items = []) : S.startPos = .ok .null := by
  unfold Seg.startPos; rw [if_pos (by simp [h])]

theorem endPos_empty {S : Seg} (h : S.items = []) : S.endPos = .ok .null := by
  unfold Seg.endPos; rw [if_pos (by simp [h])]

/-- the conflict region under `LeftOK` / `RightOK` (steps 1 and 2) -/
theorem conflict_shape {L R Lc Rc : Seg} {cs ce : SP} (hL : LeftOK L) (hR : RightOK R)
    (hne : L.items ≠ [])
    (hcs : R.startPos = .ok cs) (hce : L.endPos = .ok ce)
    (hLc : L.slice cs ce = .ok Lc) (hRc : R.slice cs ce = .ok Rc) :
    ∃ e, ce = .pr e ∧ L.items.getLast? = some (.pair e) ∧
      Lc.items = L.items.dropWhile (fun p => p.lessOnBoth cs.toPr) ∧
      ((R.items = [] ∧ cs = .null) ∨ ∃ c tl, R.items = .pair c :: tl ∧ cs = .pr c) ∧
      ∃ t, R.items.takeWhile (fun p => !p.isPair || p.leqAny e) = Rc.items ++ t ∧
        ∀ x ∈ t, x.isPair = false := by
  obtain ⟨e, he⟩ := leftOK_last hL hne
  obtain ⟨_, _, hend⟩ := last_pair he
  rw [hend] at hce
  injection hce with hce
  subst hce
  rw [slice_left hL.asc he cs] at hLc
  injection hLc with hLc
  refine ⟨e, rfl, he, by rw [← hLc], ?_⟩
  by_cases hR0 : R.items = []
  · rw [startPos_empty hR0] at hcs
    injection hcs with hcs
    rw [slice_empty hR0] at hRc
    injection hRc with hRc
    refine ⟨Or.inl ⟨hR0, hcs.symm⟩, [], ?_, by simp⟩
    rw [hR0, ← hRc]; rfl
  · obtain ⟨c, tl, hc⟩ := rightOK_first hR hR0
    obtain ⟨_, _, hst⟩ := first_pair hc
    rw [hst] at hcs
    injection hcs with hcs
    subst hcs
    obtain ⟨Rc', t, h1, h2, h3⟩ := slice_right hc (.pr e)
    rw [h1] at hRc
    injection hRc with hRc
    subst hRc
    exact ⟨Or.inr ⟨c, tl, hc, rfl⟩, t, h2, h3⟩

/-- the three ways the conflict region is removed (steps 3 and 4) -/
theorem tail_shape {L R Lc Rc l r : Seg} {b : Branch} {f g : APos → Bool} {t : List APos}
    (hT : Tail L R Lc Rc l r b) (hnL : PyNodup L.items) (hnR : PyNodup R.items)
    (hLc : Lc.items = L.items.dropWhile f) (hRc : R.items.takeWhile g = Rc.items ++ t) :
    ((b = .index0 ∨ b = .dropLeft) ∧ l.items = L.items.takeWhile f ∧ r = R) ∨
    ((b = .indexN ∨ b = .dropRight) ∧ l = L ∧ r.items = t ++ R.items.dropWhile g) ∨
    (b = .interior ∧ ∃ li ri, l.items = L.items.takeWhile f ++ Lc.items.take li ∧
        r.items = Rc.items.drop ri ++ (t ++ R.items.dropWhile g)) := by
  have hLs : L.items = L.items.takeWhile f ++ Lc.items := by
    rw [hLc, List.takeWhile_append_dropWhile]
  have hRs : R.items = Rc.items ++ (t ++ R.items.dropWhile g) := by
    rw [← List.append_assoc, ← hRc, List.takeWhile_append_dropWhile]
  rcases hT with ⟨hb, rfl, rfl⟩ | ⟨hb, rfl, rfl⟩ | ⟨hb, li, ri, rfl, rfl⟩
  · exact Or.inl ⟨hb, sub_suffix hnL hLs, rfl⟩
  · exact Or.inr (Or.inl ⟨hb, rfl, sub_prefix hnR hRs⟩)
  · refine Or.inr (Or.inr ⟨hb, li, ri, sub_suffix hnL ?_, sub_prefix hnR ?_⟩)
    · rw [List.append_assoc, List.take_append_drop]; exact hLs
    · rw [← List.append_assoc, List.take_append_drop]; exact hRs

/-- all branches at once, under `LeftOK L` and `RightOK R` -/
theorem resolve_shape {P : Params} {L R l r : Seg} {b : Branch}
    (h : resolvePairB P L R = .ok (l, r, b)) (hL : LeftOK L) (hR : RightOK R) :
    (L.items = [] ∧ l = L ∧ r = R ∧ b = .emptyLeft) ∨
    (L.items ≠ [] ∧ L.endOverlapsWithStartOf R = .ok false ∧ l = L ∧ r = R ∧ b = .noOverlap) ∨
    (∃ (cs : SP) (e : Pr) (Lc Rc : Seg) (t : List APos),
      R.startPos = .ok cs ∧ L.items.getLast? = some (.pair e) ∧
      ((R.items = [] ∧ cs = .null) ∨ ∃ c tl, R.items = .pair c :: tl ∧ cs = .pr c) ∧
      Lc.items = L.items.dropWhile (fun p => p.lessOnBoth cs.toPr) ∧
      R.items.takeWhile (fun p => !p.isPair || p.leqAny e) = Rc.items ++ t ∧
      (∀ x ∈ t, x.isPair = false) ∧
      (((b = .index0 ∨ b = .dropLeft) ∧
          l.items = L.items.takeWhile (fun p => p.lessOnBoth cs.toPr) ∧ r = R) ∨
       ((b = .indexN ∨ b = .dropRight) ∧ l = L ∧
          r.items = t ++ R.items.dropWhile (fun p => !p.isPair || p.leqAny e)) ∨
       (b = .interior ∧ ∃ li ri,
          l.items = L.items.takeWhile (fun p => p.lessOnBoth cs.toPr) ++ Lc.items.take li ∧
          r.items = Rc.items.drop ri ++
            (t ++ R.items.dropWhile (fun p => !p.isPair || p.leqAny e))))) := by
  rcases resolvePairB_cases h with h1 | h2 | ⟨hne, _, cs, ce, Lc, Rc, hcs, hce, hLc, hRc, hT⟩
  · exact Or.inl h1
  · exact Or.inr (Or.inl h2)
  · obtain ⟨e, rfl, he, hLc', hRshape, t, ht, htu⟩ := conflict_shape hL hR hne hcs hce hLc hRc
    exact Or.inr (Or.inr ⟨cs, e, Lc, Rc, t, hcs, he, hRshape, hLc', ht, htu,
      tail_shape hT hL.nodup hR.nodup hLc' ht⟩)

end Coma.Proofs.Conflict
