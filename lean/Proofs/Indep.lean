/-
  Proofs/Indep.lean — proofs for C10 (independence of query order, row order and id filters).
  Helper lemmas live in `Coma.Proofs.Indep`; the six required theorems in `Coma.Proofs`.
-/
import Props.Defs
import Proofs.SortLemmas
import Proofs.Fields
import Proofs.Cmap
import Proofs.Select
import Proofs.Modes
namespace Coma.Proofs.Indep
open Coma Coma.Spec Coma.Proofs Coma.Proofs.Cmap

/-- the row kept by the first pass for one `perQuery` result -/
def keep (o : Option Row) : Option Row :=
  match o with
  | some row => if row.pairs.isEmpty then none else some row
  | none     => none

theorem keep_some {o : Option Row} {r : Row} (h : keep o = some r) : o = some r := by
  unfold keep at h
  split at h
  · split at h
    · cases h
    · injection h with h; rw [h]
  · cases h

theorem perQuery_qid {cfg : Cfg} {refs : List OMap} {seeds : List Seed} {q : OMap} {it : Int} {row : Row}
    (h : perQuery cfg refs seeds q it = .ok (some row)) : row.queryId = q.id := by
  unfold perQuery at h
  split at h
  · cases h
  · simp only [bind, Except.bind, pure, Except.pure] at h
    split at h
    · cases h
    · rename_i rows hrows
      simp only [Except.ok.injEq] at h
      obtain ⟨s, _, hs⟩ := Modes.mapM_ok_mem _ _ _ hrows row (Modes.bestRow_mem h)
      split at hs
      · cases hs
      · exact (alignerAlign_fields _ _ _ _ _ _ _ _ hs).1

theorem executeSingle_eq (cfg : Cfg) (refs : List OMap) (t : SeedTable) (qs : List OMap) (it : Int) :
    executeSingle cfg refs t qs it =
      match qs.mapM (fun q => perQuery cfg refs (t.lookup q.key) q it) with
      | .error e => .error e
      | .ok rs => .ok (rs.filterMap keep) := by
  unfold executeSingle
  simp only [bind, Except.bind, pure, Except.pure]
  cases qs.mapM (fun q => perQuery cfg refs (t.lookup q.key) q it) with
  | error e => rfl
  | ok rs =>
    simp only
    congr 2

theorem executeSingle_ok_iff (cfg : Cfg) (refs : List OMap) (t : SeedTable) (qs : List OMap) (it : Int)
    (rows : List Row) :
    executeSingle cfg refs t qs it = .ok rows ↔
      (∀ q ∈ qs, ∃ o, perQuery cfg refs (t.lookup q.key) q it = .ok o) ∧
      rows = qs.filterMap (fun q => keep (toOk (perQuery cfg refs (t.lookup q.key) q it))) := by
  rw [executeSingle_eq]
  cases hm : qs.mapM (fun q => perQuery cfg refs (t.lookup q.key) q it) with
  | error e =>
    constructor
    · intro h; cases h
    · rintro ⟨h1, _⟩
      have := (mapM_ok_iff (fun q => perQuery cfg refs (t.lookup q.key) q it) qs _).2 ⟨h1, rfl⟩
      rw [hm] at this; cases this
  | ok rs =>
    obtain ⟨h1, h2⟩ := (mapM_ok_iff _ qs rs).1 hm
    simp only [Except.ok.injEq]
    rw [h2, List.filterMap_map]
    constructor
    · intro h; exact ⟨h1, h.symm⟩
    · rintro ⟨_, h⟩; exact h.symm

theorem filterMap_ids_sub (F : OMap → Option Row) (hF : ∀ q r, F q = some r → r.queryId = q.id) :
    ∀ qs : List OMap, ((qs.filterMap F).map (·.queryId)).Sublist (qs.map (·.id))
  | [] => List.Sublist.slnil
  | q :: qs => by
    rw [List.filterMap_cons]
    cases hq : F q with
    | none => exact List.Sublist.cons _ (filterMap_ids_sub F hF qs)
    | some r =>
      simp only [List.map_cons]
      rw [hF q r hq]
      exact List.Sublist.cons_cons _ (filterMap_ids_sub F hF qs)

theorem strict_of_sorted_nodup {α} (key : α → Int) (l : List α)
    (hs : (l.map key).Pairwise (· ≤ ·)) (hn : (l.map key).Nodup) :
    l.Pairwise (fun a b => key a < key b) := by
  rw [List.pairwise_map] at hs
  unfold List.Nodup at hn
  rw [List.pairwise_map] at hn
  refine (hs.and hn).imp ?_
  intro a b ⟨h1, h2⟩
  omega

end Coma.Proofs.Indep

namespace Coma.Proofs
open Coma Coma.Spec Coma.Proofs.Indep Coma.Proofs.Select

theorem executeSingle_ids (cfg : Cfg) (refs : List OMap) (t : SeedTable) (qs : List OMap) (it : Int) (rows : List Row)
    (h : executeSingle cfg refs t qs it = .ok rows) :
    (rows.map (·.queryId)).Sublist (qs.map (·.id)) := by
  obtain ⟨_, rfl⟩ := (executeSingle_ok_iff cfg refs t qs it rows).1 h
  apply filterMap_ids_sub
  intro q r hk
  have hk := keep_some hk
  cases hp : perQuery cfg refs (t.lookup q.key) q it with
  | error e => rw [hp] at hk; cases hk
  | ok o =>
    rw [hp] at hk
    simp only [Cmap.toOk_ok] at hk
    subst hk
    exact perQuery_qid hp

theorem filterBestPerQuery_perm (rows rows' : List Row) (hp : rows.Perm rows') (hn : (rows.map (·.queryId)).Nodup) :
    filterBestPerQuery rows = filterBestPerQuery rows' := by
  rw [fbq_eq, fbq_eq]
  have hS : ((isort qid (isort nconf rows)).Perm rows) := (isort_perm _ _).trans (isort_perm _ _)
  have hS' : ((isort qid (isort nconf rows')).Perm rows') := (isort_perm _ _).trans (isort_perm _ _)
  have hnS : ((isort qid (isort nconf rows)).map qid).Nodup := (hS.map qid).nodup_iff.2 hn
  have hstrict := strict_of_sorted_nodup qid _ (isort_sorted qid (isort nconf rows)) hnS
  have hle := isort_sorted qid (isort nconf rows')
  rw [List.pairwise_map] at hle
  have := eq_of_perm_sorted qid _ _ ((hS'.trans hp.symm).trans hS.symm) hstrict hle
  rw [this]

theorem executeSingle_perm (cfg : Cfg) (refs : List OMap) (t : SeedTable) (qs qs' : List OMap) (it : Int)
    (rows rows' : List Row) (hp : qs.Perm qs')
    (h : executeSingle cfg refs t qs it = .ok rows) (h' : executeSingle cfg refs t qs' it = .ok rows') :
    rows.Perm rows' := by
  obtain ⟨_, rfl⟩ := (executeSingle_ok_iff cfg refs t qs it rows).1 h
  obtain ⟨_, rfl⟩ := (executeSingle_ok_iff cfg refs t qs' it rows').1 h'
  exact hp.filterMap _

theorem execute_single_perm (cfg : Cfg) (refs : List OMap) (t : SeedTable) (qs qs' : List OMap) (it : Int)
    (o o' : Output) (hp : qs.Perm qs') (hn : (qs.map (·.id)).Nodup)
    (h : execute cfg .single refs t qs it = .ok o) (h' : execute cfg .single refs t qs' it = .ok o') :
    o.main = o'.main := by
  unfold execute at h h'
  simp only [bind, Except.bind, pure, Except.pure] at h h'
  cases h1 : executeSingle cfg refs t qs it with
  | error e => rw [h1] at h; cases h
  | ok first =>
    cases h2 : executeSingle cfg refs t qs' it with
    | error e => rw [h2] at h'; cases h'
    | ok first' =>
      rw [h1] at h
      rw [h2] at h'
      simp only [if_true, Except.ok.injEq] at h h'
      subst h
      subst h'
      exact filterBestPerQuery_perm first first' (executeSingle_perm cfg refs t qs qs' it _ _ hp h1 h2)
        ((executeSingle_ids cfg refs t qs it first h1).nodup hn)
theorem runProgram_id_filter (cfg : Cfg) (mode : Mode) (refRows qryRows : List CRow) (refIds qryIds : List Int)
    (t : SeedTable) (it : Int) :
    runProgram cfg mode refRows qryRows refIds qryIds t it =
      runProgram cfg mode
        (if refIds.isEmpty then refRows else refRows.filter (fun r => refIds.contains r.id))
        (if qryIds.isEmpty then qryRows else qryRows.filter (fun r => qryIds.contains r.id)) [] [] t it := by
  have key : ∀ (rows : List CRow) (ids : List Int),
      readCmap 1 rows ids = readCmap 1 (if ids.isEmpty then rows else rows.filter (fun r => ids.contains r.id)) [] := by
    intro rows ids
    cases ids with
    | nil => rfl
    | cons a as =>
      rw [readCmap_filter 1 rows (a :: as) (by simp)]
      rfl
  unfold runProgram readMaps
  rw [key refRows refIds, key qryRows qryIds]

theorem runProgram_row_perm (cfg : Cfg) (mode : Mode) (refRows refRows' qryRows qryRows' : List CRow)
    (refIds qryIds : List Int) (t : SeedTable) (it : Int)
    (hr : refRows.Perm refRows') (hq : qryRows.Perm qryRows')
    (h1 : ∀ id, (refRows.filter (fun r => r.id = id ∧ r.chan = 0)).length ≤ 1)
    (h2 : ∀ id, (qryRows.filter (fun r => r.id = id ∧ r.chan = 0)).length ≤ 1) :
    runProgram cfg mode refRows qryRows refIds qryIds t it =
    runProgram cfg mode refRows' qryRows' refIds qryIds t it := by
  unfold runProgram readMaps
  rw [readCmap_perm 1 refRows refRows' refIds hr h1, readCmap_perm 1 qryRows qryRows' qryIds hq h2]

end Coma.Proofs
