import Props.Defs
import Proofs.SortLemmas
import Proofs.Fields
import Proofs.Cmap
namespace Coma.Proofs
open Coma Coma.Spec

/-- every row of the first pass belongs to one of the queries (its id) -/
theorem executeSingle_ids (cfg : Cfg) (refs : List OMap) (t : SeedTable) (qs : List OMap) (it : Int) (rows : List Row)
    (h : executeSingle cfg refs t qs it = .ok rows) :
    (rows.map (·.queryId)).Sublist (qs.map (·.id)) := by
  sorry

/-- the per-query filter does not depend on the order of its input when query ids are distinct -/
theorem filterBestPerQuery_perm (rows rows' : List Row) (hp : rows.Perm rows') (hn : (rows.map (·.queryId)).Nodup) :
    filterBestPerQuery rows = filterBestPerQuery rows' := by
  sorry

/-- permuting the query list permutes the first-pass rows -/
theorem executeSingle_perm (cfg : Cfg) (refs : List OMap) (t : SeedTable) (qs qs' : List OMap) (it : Int)
    (rows rows' : List Row) (hp : qs.Perm qs')
    (h : executeSingle cfg refs t qs it = .ok rows) (h' : executeSingle cfg refs t qs' it = .ok rows') :
    rows.Perm rows' := by
  sorry

/-- single-pass mode: the main file does not depend on the order of the queries -/
theorem execute_single_perm (cfg : Cfg) (refs : List OMap) (t : SeedTable) (qs qs' : List OMap) (it : Int)
    (o o' : Output) (hp : qs.Perm qs') (hn : (qs.map (·.id)).Nodup)
    (h : execute cfg .single refs t qs it = .ok o) (h' : execute cfg .single refs t qs' it = .ok o') :
    o.main = o'.main := by
  sorry

/-- -qId / -rId give exactly the run on files physically restricted to those molecules -/
theorem runProgram_id_filter (cfg : Cfg) (mode : Mode) (refRows qryRows : List CRow) (refIds qryIds : List Int)
    (t : SeedTable) (it : Int) :
    runProgram cfg mode refRows qryRows refIds qryIds t it =
      runProgram cfg mode
        (if refIds.isEmpty then refRows else refRows.filter (fun r => refIds.contains r.id))
        (if qryIds.isEmpty then qryRows else qryRows.filter (fun r => qryIds.contains r.id)) [] [] t it := by
  sorry

/-- the order of rows (and hence of molecules) inside both CMAP files is irrelevant -/
theorem runProgram_row_perm (cfg : Cfg) (mode : Mode) (refRows refRows' qryRows qryRows' : List CRow)
    (refIds qryIds : List Int) (t : SeedTable) (it : Int)
    (hr : refRows.Perm refRows') (hq : qryRows.Perm qryRows')
    (h1 : ∀ id, (refRows.filter (fun r => r.id = id ∧ r.chan = 0)).length ≤ 1)
    (h2 : ∀ id, (qryRows.filter (fun r => r.id = id ∧ r.chan = 0)).length ≤ 1) :
    runProgram cfg mode refRows qryRows refIds qryIds t it =
    runProgram cfg mode refRows' qryRows' refIds qryIds t it := by
  sorry

end Coma.Proofs
