import Props.Defs
import Proofs.SeededTotal
import Proofs.SitesValid
import Proofs.Ties
import Proofs.TiesRun
/-!
  Proofs/TiesMore.lean — COINCIDENT LABELS (weakly ascending coordinates), the remaining three
  theorems that assumed `StrictAscending`:

  * `seeded_execute_total_weak`  (whole run with the secondary seeding stage inside the model),
  * `candidate_sites_valid_weak` (strictly ascending listed pairs ⇒ valid matching in label numbers),
  * `candidate_single_segment_valid_weak` (at most one non-empty segment ⇒ valid matching).

  The step from coordinates to label NUMBERS no longer uses "a label is determined by its
  coordinate" (false with coincident labels) but only the monotonicity of the enumeration
  `OMap.labels`: a strictly smaller coordinate means a strictly smaller label number on the forward
  strand and a strictly larger one on the reverse strand (`labels_pos_lt_site`).
-/
namespace Coma.Proofs
open Coma Coma.Spec Coma.Proofs.SitesValid

/-! ### (B), (C): from coordinates to label numbers -/

theorem getElem?_lt_of_lt (xs : List Int) (hs : xs.Pairwise (· ≤ ·)) (i j : Nat) (a b : Int)
    (hi : xs[i]? = some a) (hj : xs[j]? = some b) (hab : a < b) : i < j := by
  obtain ⟨hi', rfl⟩ := List.getElem?_eq_some_iff.mp hi
  obtain ⟨hj', rfl⟩ := List.getElem?_eq_some_iff.mp hj
  rcases Nat.lt_trichotomy i j with h | h | h
  · exact h
  · subst h; omega
  · have := (List.pairwise_iff_getElem.mp hs) j i hj' hi' h
    omega

/-- on a map with weakly ascending coordinates, a strictly smaller coordinate means a strictly
    smaller label number on the forward strand and a strictly larger one on the reverse strand -/
theorem labels_pos_lt_site (m : OMap) (rev : Bool) (hs : Ascending m.positions) (a b : Lbl)
    (ha : a ∈ m.labels rev) (hb : b ∈ m.labels rev) (hlt : a.pos < b.pos) :
    (if rev then b.site < a.site else a.site < b.site) := by
  obtain ⟨k, p, hk, hsa, hpa⟩ := ((labels_spec m rev).2 a).mp ha
  obtain ⟨k', p', hk', hsb, hpb⟩ := ((labels_spec m rev).2 b).mp hb
  cases rev with
  | false =>
    simp only [Bool.false_eq_true, if_false] at hpa hpb ⊢
    have := getElem?_lt_of_lt m.positions hs k k' p p' hk hk' (by omega)
    omega
  | true =>
    simp only [if_true] at hpa hpb ⊢
    have := getElem?_lt_of_lt m.positions hs k' k p' p hk' hk (by omega)
    omega

/-- pairs that join real labels and are strictly ascending on both maps in COORDINATES form a
    valid matching in LABEL NUMBERS, also when the maps have coincident labels -/
theorem valid_sites_of_ascending_weak (ref qry : OMap) (rev : Bool)
    (hr : Ascending ref.positions) (hq : Ascending qry.positions) (ps : List Pr)
    (hreal : ∀ p ∈ ps, p.r ∈ ref.labels false ∧ p.q ∈ qry.labels rev)
    (hasc : ps.Pairwise (fun a b => a.r.pos < b.r.pos ∧ a.q.pos < b.q.pos)) :
    ValidMatching rev (sitePairs ps) := by
  unfold ValidMatching sitePairs
  rw [List.pairwise_map]
  refine hasc.imp_of_mem ?_
  intro a b ha hb hab
  obtain ⟨har, haq⟩ := hreal a ha
  obtain ⟨hbr, hbq⟩ := hreal b hb
  have h1 := labels_pos_lt_site ref false hr a.r b.r har hbr hab.1
  have h2 := labels_pos_lt_site qry rev hq a.q b.q haq hbq hab.2
  exact ⟨by simpa using h1, h2⟩

/-- `candidate_sites_valid` for weakly ascending coordinates (coincident labels allowed) -/
theorem candidate_sites_valid_weak (P : Params) (C : ChainCfg) (hP : GoodParams P) (ref qry : OMap) (peaks : List Int)
    (rev : Bool) (it : Int) (hr : Ascending ref.positions) (hq : Ascending qry.positions)
    (row : Row) (h : alignerAlign P C ref qry peaks rev it = .ok row)
    (hasc : row.pairs.Pairwise (fun a b => a.r.pos < b.r.pos ∧ a.q.pos < b.q.pos)) :
    ValidMatching rev (sitePairs row.pairs) ∧
    (∀ p ∈ row.pairs, p.r ∈ ref.labels false ∧ p.q ∈ qry.labels rev) := by
  have hreal := alignerAlign_labels_real_weak P C hP ref qry peaks rev it hr hq row h
  exact ⟨valid_sites_of_ascending_weak ref qry rev hr hq row.pairs hreal hasc, hreal⟩

/-- `candidate_single_segment_valid` for weakly ascending coordinates (coincident labels allowed) -/
theorem candidate_single_segment_valid_weak (P : Params) (C : ChainCfg) (hP : GoodParams P) (ref qry : OMap) (peaks : List Int)
    (rev : Bool) (it : Int) (hr : Ascending ref.positions) (hq : Ascending qry.positions)
    (row : Row) (h : alignerAlign P C ref qry peaks rev it = .ok row)
    (h1 : (row.segments.filter (fun s => !s.items.isEmpty)).length ≤ 1) :
    ValidMatching rev (sitePairs row.pairs) := by
  have hreal := alignerAlign_labels_real_weak P C hP ref qry peaks rev it hr hq row h
  have hseg := alignerAlign_segment_valid_weak P C hP ref qry peaks rev it hr hq row h
  apply valid_sites_of_ascending_weak ref qry rev hr hq row.pairs hreal
  have h0 : ∀ s ∈ row.segments, (!s.items.isEmpty) = false → Seg.pairs s = [] := by
    intro s _ hs
    have : s.items = [] := by simpa using hs
    simp [Seg.pairs, this]
  rcases flatMap_single (fun s : Seg => !s.items.isEmpty) Seg.pairs row.segments h1 h0 with hn | ⟨s, hs, he⟩
  · simp only [Row.pairs]; rw [hn]; exact List.Pairwise.nil
  · simp only [Row.pairs]; rw [he]; exact hseg s hs

/-! ### (A): the run with the secondary seeding stage -/

namespace SeededTotal

/-- deriving one seed succeeds (weakly ascending reference coordinates) -/
theorem deriveSeed_total_weak (c : SecCfg) (refs : List OMap) (q : OMap) (s : PSeed) (hres : 1 ≤ c.res) (hb : 0 ≤ c.blur)
    (hrefs : ∀ r ∈ refs, Ascending r.positions) (hq : Ascending q.positions) (hq0 : ∃ p ∈ q.positions, 0 ≤ p)
    (hrid : (refs.map (·.id)).Nodup) (hs : PSeedOK c refs s) :
    ∃ x, deriveSeed c refs q s = .ok x := by
  obtain ⟨r', hr'mem, hr'id, hwin⟩ := hs
  unfold deriveSeed
  simp only []
  cases hf : refs.find? (fun r => r.id = s.refId) with
  | none =>
    rw [List.find?_eq_none] at hf
    exact absurd (by simpa using hr'id) (hf r' hr'mem)
  | some r =>
    have hmem := List.mem_of_find?_eq_some hf
    have hid : r.id = s.refId := by simpa using List.find?_some hf
    have hrr : r = r' := eq_of_nodup_id refs hrid r hmem r' hr'mem (hid.trans hr'id.symm)
    subst hrr
    have hne : r.positions ≠ [] := by
      obtain ⟨p, hp, _⟩ := hwin
      intro h0; rw [h0] at hp; cases hp
    have hasc : Ascending r.positions := hrefs r hmem
    obtain ⟨pk, hpk⟩ := (refine_ok_iff c r q s.rev s.primary hres hb hq hasc hq0 hne).mpr hwin
    obtain ⟨corr, hcorr, _⟩ := (Peaks.refine_ok c r q s.rev s.primary pk).mp hpk
    simp only [bind, Except.bind, pure, Except.pure, hcorr, hpk]
    split <;> exact ⟨_, rfl⟩

/-- the fragment a key stands for has (weakly) ascending positions -/
theorem fragmentOf_ascending_weak (qs : List OMap) (k : QKey) (q : OMap)
    (hqs : ∀ q ∈ qs, Ascending q.positions) (h : fragmentOf qs k = some q) : Ascending q.positions := by
  unfold fragmentOf at h
  cases hf : qs.find? (fun q => q.id = k.id) with
  | none => rw [hf] at h; cases h
  | some q0 =>
    rw [hf] at h
    simp only [Option.map_some, Option.some.injEq] at h
    subst h
    have hmem := List.mem_of_find?_eq_some hf
    have h0 : Ascending q0.positions := hqs q0 hmem
    exact (h0.sublist (List.drop_sublist _ _)).sublist (List.take_sublist _ _)

theorem deriveEntry_total_weak (c : SecCfg) (refs qs : List OMap) (e : QKey × List PSeed) (hres : 1 ≤ c.res) (hb : 0 ≤ c.blur)
    (hrefs : ∀ r ∈ refs, Ascending r.positions) (hqs : ∀ q ∈ qs, Ascending q.positions)
    (hrid : (refs.map (·.id)).Nodup)
    (hq : ∃ q, fragmentOf qs e.1 = some q ∧ (∃ p ∈ q.positions, 0 ≤ p)) (hs : ∀ s ∈ e.2, PSeedOK c refs s) :
    ∃ r, deriveEntry c refs qs e = .ok r := by
  obtain ⟨q, hf, hq0⟩ := hq
  unfold deriveEntry
  rw [hf]
  simp only []
  have hasc := fragmentOf_ascending_weak qs e.1 q hqs hf
  obtain ⟨ds, hds⟩ := mapM_total (deriveSeed c refs q) e.2
    (fun s hs' => deriveSeed_total_weak c refs q s hres hb hrefs hasc hq0 hrid (hs s hs'))
  rw [hds]
  exact ⟨_, rfl⟩

end SeededTotal

open SeededTotal

/-- deriving the table succeeds, also for molecules with coincident labels … -/
theorem deriveTable_total_weak (c : SecCfg) (refs qs : List OMap) (pt : PTable) (hres : 1 ≤ c.res) (hb : 0 ≤ c.blur)
    (hrefs : ∀ r ∈ refs, Ascending r.positions) (hqs : ∀ q ∈ qs, Ascending q.positions)
    (hrid : (refs.map (·.id)).Nodup)
    (hpt : PTableOK c refs qs pt) :
    ∃ d, deriveTable c refs qs pt = .ok d := by
  induction pt with
  | nil => exact ⟨_, rfl⟩
  | cons e tl ih =>
    obtain ⟨hq, hs⟩ := hpt e List.mem_cons_self
    obtain ⟨r, hr⟩ := deriveEntry_total_weak c refs qs e hres hb hrefs hqs hrid hq hs
    obtain ⟨d, hd⟩ := ih (fun e' he' => hpt e' (List.mem_cons_of_mem _ he'))
    rw [deriveTable_cons, hr]
    simp only [hd]
    exact ⟨_, rfl⟩

/-- … and the alignment logic then runs to completion in every output mode -/
theorem seeded_execute_total_weak (cfg : Cfg) (c : SecCfg) (mode : Mode) (hP : GoodParams cfg.P) (refs qs : List OMap) (pt : PTable) (it : Int)
    (hres : 1 ≤ c.res) (hb : 0 ≤ c.blur)
    (hrefs : ∀ r ∈ refs, Ascending r.positions) (hqs : ∀ q ∈ qs, Ascending q.positions ∧ q.shift = 0)
    (hids : (qs.map (·.id)).Nodup) (hrid : (refs.map (·.id)).Nodup)
    (hpt : PTableOK c refs qs pt) :
    ∃ d out, deriveTable c refs qs pt = .ok d ∧ execute cfg mode refs d.table qs it = .ok out := by
  obtain ⟨d, hd⟩ := deriveTable_total_weak c refs qs pt hres hb hrefs (fun q hq => (hqs q hq).1) hrid hpt
  obtain ⟨out, hout⟩ := execute_total_weak cfg mode hP refs d.table qs it hrefs hqs hids
    (deriveTable_refs c refs qs pt d hd)
  exact ⟨d, out, hd, hout⟩

/-! ### non-vacuity: a closed candidate on the reverse strand, coincident labels on both maps -/

namespace TiesMore

def wRef : OMap := { id := 1, length := 30000, positions := [1000, 5000, 5000, 9000, 14000, 14000, 20000, 26000] }
/-- the window 4000 … 24000 of `wRef`, mirrored: labels 2/3 and 5/6 coincide on both maps -/
def wQry : OMap := { id := 8, length := 20000, positions := [3999, 9999, 9999, 14999, 18999, 18999] }

/-- the hypotheses of the `_weak` theorems hold and neither map is strictly ascending -/
theorem witness_hyps : Ascending wRef.positions ∧ Ascending wQry.positions ∧
    ¬ StrictAscending wRef.positions ∧ ¬ StrictAscending wQry.positions := by
  unfold Ascending StrictAscending
  decide

/-- one non-empty segment; of each coincident pair exactly one label is paired, and the label
    numbers ascend on the reference and descend on the query -/
theorem witness_row :
    ((alignerAlign defaultParams {} wRef wQry [4000] true 1).toOption.map
      (fun row => (sitePairs row.pairs, (row.segments.filter (fun s => !s.items.isEmpty)).length)))
      = some ([(2, 5), (4, 4), (5, 2), (7, 1)], 1) := by
  decide +kernel

end TiesMore

end Coma.Proofs
