/-
  Proofs/Peaks.lean — the secondary seeding stage (`Coma/Peaks.lean`): what the model of
  `find_peaks` returns, and what `refine` returns, characterised from the definitions.
-/
import Coma.Peaks
import Proofs.Vector
import Proofs.Corr
import Proofs.Peaks_Plateau
import Proofs.Peaks_Prom
import Proofs.Peaks_Refine
namespace Coma.Proofs
open Coma

/-- samples `l..r` of `x` form a local-maximum plateau: equal values, strictly smaller sample on either
    side (so neither edge touches an end of the array) -/
def IsPlateau (x : List Int) (l r : Nat) : Prop :=
  1 ≤ l ∧ l ≤ r ∧ r + 1 < x.length ∧
  (∀ i, l ≤ i → i ≤ r → x[i]? = x[l]?) ∧
  (∃ a v b, x[l - 1]? = some a ∧ x[l]? = some v ∧ x[r + 1]? = some b ∧ a < v ∧ b < v)

theorem plateaus_iff (x : List Int) (l r : Nat) : (l, r) ∈ plateaus x ↔ IsPlateau x l r := by
  exact Peaks.plateaus_iff' x l r

/-- plateaus come out in ascending order, separated by at least one sample -/
theorem plateaus_sorted (x : List Int) : (plateaus x).Pairwise (fun a b => a.2 + 1 < b.1) := by
  exact Peaks.plateaus_sorted' x

theorem localMaxima_iff (x : List Int) (p : Nat) :
    p ∈ localMaxima x ↔ ∃ l r, IsPlateau x l r ∧ p = (l + r) / 2 := by
  unfold localMaxima
  rw [List.mem_map]
  constructor
  · rintro ⟨⟨l, r⟩, hm, rfl⟩
    exact ⟨l, r, (plateaus_iff x l r).mp hm, rfl⟩
  · rintro ⟨l, r, hp, rfl⟩
    exact ⟨(l, r), (plateaus_iff x l r).mpr hp, rfl⟩

theorem localMaxima_interior (x : List Int) (p : Nat) (h : p ∈ localMaxima x) : 0 < p ∧ p + 1 < x.length := by
  obtain ⟨l, r, hp, rfl⟩ := (localMaxima_iff x p).mp h
  obtain ⟨h1, h2, h3, _⟩ := hp
  omega

theorem localMaxima_sorted (x : List Int) : (localMaxima x).Pairwise (· < ·) := by
  unfold localMaxima
  rw [List.pairwise_map]
  refine List.Pairwise.imp_of_mem ?_ (plateaus_sorted x)
  intro a b ha hb hab
  obtain ⟨_, ha2, _⟩ := (plateaus_iff x a.1 a.2).mp ha
  obtain ⟨_, hb2, _⟩ := (plateaus_iff x b.1 b.2).mp hb
  omega

/-- the prominence of a sample of height `v` at `p`: with `[lo, hi]` the largest interval around `p`
    whose samples are all `≤ v`, it is `v` minus the larger of the minimum over `[lo, p]` and the
    minimum over `[p, hi]` -/
theorem prominence_spec (x : List Int) (p : Nat) (v : Int) (hv : x[p]? = some v) :
    ∃ lo hi, lo ≤ p ∧ p ≤ hi ∧ hi < x.length ∧
      (∀ i, lo ≤ i → i ≤ hi → ∃ y, x[i]? = some y ∧ y ≤ v) ∧
      (lo = 0 ∨ ∃ y, x[lo - 1]? = some y ∧ v < y) ∧
      (hi + 1 = x.length ∨ ∃ y, x[hi + 1]? = some y ∧ v < y) ∧
      ∃ lm rm,
        (∃ i, lo ≤ i ∧ i ≤ p ∧ x[i]? = some lm) ∧ (∀ i y, lo ≤ i → i ≤ p → x[i]? = some y → lm ≤ y) ∧
        (∃ i, p ≤ i ∧ i ≤ hi ∧ x[i]? = some rm) ∧ (∀ i y, p ≤ i → i ≤ hi → x[i]? = some y → rm ≤ y) ∧
        prominence x p = v - max lm rm := by
  exact Peaks.prominence_spec' x p v hv

theorem prominence_nonneg (x : List Int) (p : Nat) : 0 ≤ prominence x p := by
  exact Peaks.prominence_nonneg' x p

theorem maxInit0_spec (x : List Int) : 0 ≤ maxInit0 x ∧ (∀ y ∈ x, y ≤ maxInit0 x) ∧ (maxInit0 x = 0 ∨ maxInit0 x ∈ x) := by
  exact Peaks.maxInit0_spec' x

/-- exactly the local maxima that reach the height threshold and whose prominence is at least a
    twentieth of the largest sample are returned, each with its height -/
theorem findPeaksSecondary_iff (thr : Rat) (x : List Int) (p : Nat) (h : Int) :
    (p, h) ∈ findPeaksSecondary thr x ↔
      p ∈ localMaxima x ∧ x[p]? = some h ∧ thr ≤ (h : Rat) ∧ maxInit0 x ≤ 20 * prominence x p := by
  unfold findPeaksSecondary
  simp only [List.mem_filterMap]
  constructor
  · rintro ⟨a, ha, hf⟩
    cases hx : (x[a]? : Option Int) with
    | none => rw [hx] at hf; simp at hf
    | some v =>
      rw [hx] at hf
      simp only [] at hf
      split at hf
      · rename_i hc
        cases hf
        exact ⟨ha, hx, hc.1, hc.2⟩
      · cases hf
  · rintro ⟨h1, h2, h3, h4⟩
    refine ⟨p, h1, ?_⟩
    rw [h2]
    simp only []
    rw [if_pos ⟨h3, h4⟩]

theorem findPeaksSecondary_sorted (thr : Rat) (x : List Int) :
    ((findPeaksSecondary thr x).map (·.1)).Pairwise (· < ·) := by
  unfold findPeaksSecondary
  rw [List.pairwise_map, List.pairwise_filterMap]
  refine (localMaxima_sorted x).imp ?_
  intro a b hab pa hpa pb hpb
  have key : ∀ (a : Nat) (pa : Nat × Int),
      (match (x[a]? : Option Int) with
        | none => none
        | some h => if thr ≤ ((h : Int) : Rat) ∧ maxInit0 x ≤ 20 * prominence x a then some (a, h) else none) = some pa →
      pa.1 = a := by
    intro a pa h
    split at h
    · cases h
    · split at h
      · cases h; rfl
      · cases h
  rw [key a pa hpa, key b pb hpb]
  exact hab

/-! ### `refine` -/

/-- every seed `refine` returns is the centre of a bin `k` of the refinement window at which the
    secondary correlation has a local maximum of the reported height that passes both conditions -/
theorem refine_sound (c : SecCfg) (ref q : OMap) (rev : Bool) (peak : Int) (pk : List (Int × Int))
    (h : refine c ref q rev peak = .ok pk) :
    ∃ corr, refineCorrelation c ref q rev peak = .ok corr ∧
      ∀ e ∈ pk, ∃ k : Nat, (k, e.2) ∈ findPeaksSecondary c.thr (corr.map Int.ofNat) ∧
        e.1 = toBp (k : Int) c.res (peak - c.margin) := by
  obtain ⟨corr, hc, rfl⟩ := (Peaks.refine_ok c ref q rev peak pk).mp h
  refine ⟨corr, hc, ?_⟩
  intro e he
  unfold createPeaks at he
  simp only [List.mem_map] at he
  obtain ⟨p, hp, rfl⟩ := he
  have hp' : p ∈ (findPeaksSecondary c.thr (corr.map Int.ofNat)).map fun p => ((p.1 : Int), p.2) := by
    split at hp
    · exact Peaks.selectPeaks_subset _ _ _ _ hp
    · exact hp
  obtain ⟨⟨k, hgt⟩, hk, rfl⟩ := List.mem_map.mp hp'
  exact ⟨k, hk, rfl⟩

/-- at most `keep` peaks pass: all of them are returned, in ascending position -/
theorem refine_all_when_few (c : SecCfg) (ref q : OMap) (rev : Bool) (peak : Int) (corr : List Nat)
    (hc : refineCorrelation c ref q rev peak = .ok corr)
    (hn : ¬ c.keep < ((findPeaksSecondary c.thr (corr.map Int.ofNat)).length : Int)) :
    refine c ref q rev peak =
      .ok ((findPeaksSecondary c.thr (corr.map Int.ofNat)).map fun p => (toBp (p.1 : Int) c.res (peak - c.margin), p.2)) := by
  refine (Peaks.refine_ok c ref q rev peak _).mpr ⟨corr, hc, ?_⟩
  simp [createPeaks, hn, List.map_map, Function.comp_def]

/-- more than `keep` pass: exactly the `keep` highest are returned -/
theorem refine_top (c : SecCfg) (ref q : OMap) (rev : Bool) (peak : Int) (corr : List Nat) (hk : 0 ≤ c.keep)
    (hc : refineCorrelation c ref q rev peak = .ok corr)
    (hn : c.keep < ((findPeaksSecondary c.thr (corr.map Int.ofNat)).length : Int)) :
    ∃ kept rest : List (Nat × Int),
      refine c ref q rev peak = .ok (kept.map fun p => (toBp (p.1 : Int) c.res (peak - c.margin), p.2)) ∧
      kept.length = c.keep.toNat ∧ (kept ++ rest).Perm (findPeaksSecondary c.thr (corr.map Int.ofNat)) ∧
      ∀ a ∈ kept, ∀ b ∈ rest, b.2 ≤ a.2 := by
  obtain ⟨hlen, _, rest, hperm, hle⟩ := selectPeaks_spec c.keep.toNat (fun (p : Nat × Int) => p.2)
    (findPeaksSecondary c.thr (corr.map Int.ofNat))
  refine ⟨selectPeaks c.keep.toNat (fun (p : Nat × Int) => p.2) (findPeaksSecondary c.thr (corr.map Int.ofNat)),
    rest, ?_, ?_, hperm, hle⟩
  · refine (Peaks.refine_ok c ref q rev peak _).mpr ⟨corr, hc, ?_⟩
    unfold createPeaks
    simp only [List.length_map]
    rw [if_pos hn, Peaks.selectPeaks_map, List.map_map]
    rfl
  · rw [hlen]; omega

/-- the vector of a molecule is non-empty exactly when a label lies at or after the window start -/
theorem sequenceOf_nonempty_iff (res blurR : Int) (positions : List Int) (start : Int) (stop? : Option Int) (v : List Nat)
    (hres : 1 ≤ res) (hs : Coma.Spec.Ascending positions) (h : sequenceOf res blurR positions start stop? = .ok v) :
    v ≠ [] ↔ ∃ p ∈ positions, start ≤ p := by
  exact Peaks.sequenceOf_ne_nil res blurR positions start stop? v hres h

/-- `refine` raises exactly when no reference label lies at or after the start of the refinement
    window (scipy's `correlate` raises IndexError on the empty vector) -/
theorem refine_ok_iff (c : SecCfg) (ref q : OMap) (rev : Bool) (peak : Int) (hres : 1 ≤ c.res) (hb : 0 ≤ c.blur)
    (hqs : Coma.Spec.Ascending q.positions) (hrs : Coma.Spec.Ascending ref.positions)
    (hq : ∃ p ∈ q.positions, 0 ≤ p) (hr : ref.positions ≠ []) :
    (∃ pk, refine c ref q rev peak = .ok pk) ↔ ∃ p ∈ ref.positions, peak - c.margin ≤ p := by
  have hqne : q.positions ≠ [] := by
    obtain ⟨p, hp, _⟩ := hq
    intro h; rw [h] at hp; cases hp
  constructor
  · rintro ⟨pk, hpk⟩
    obtain ⟨corr, hc, _⟩ := (Peaks.refine_ok c ref q rev peak pk).mp hpk
    obtain ⟨qs, rs, _, h2, h3⟩ := (Peaks.refineCorrelation_ok c ref q rev peak corr).mp hc
    have := ((Peaks.correlate_ok_iff rs qs).mp ⟨corr, h3⟩).1
    exact (Peaks.sequenceOf_ne_nil _ _ _ _ _ rs hres h2).mp this
  · intro hex
    obtain ⟨s, hs⟩ := Peaks.sequenceOf_exists c.res c.blur q.positions 0 none hres hb hqne
    obtain ⟨rs, hrs⟩ := Peaks.sequenceOf_exists c.res c.blur ref.positions (peak - c.margin)
      (some (peak + q.length + c.margin)) hres hb hr
    have hsne : s ≠ [] := (Peaks.sequenceOf_ne_nil _ _ _ _ _ s hres hs).mpr hq
    have hrne : rs ≠ [] := (Peaks.sequenceOf_ne_nil _ _ _ _ _ rs hres hrs).mpr hex
    have hqs' : querySequence c q rev = .ok (if rev then s.reverse else s) :=
      (Peaks.querySequence_ok c q rev _).mpr ⟨s, hs, rfl⟩
    have hqne' : (if rev then s.reverse else s) ≠ [] := by
      cases rev <;> simpa using hsne
    obtain ⟨corr, hcorr⟩ := (Peaks.correlate_ok_iff rs _).mpr ⟨hrne, hqne'⟩
    exact ⟨_, (Peaks.refine_ok c ref q rev peak _).mpr
      ⟨corr, (Peaks.refineCorrelation_ok c ref q rev peak corr).mpr ⟨_, rs, hqs', hrs, hcorr⟩, rfl⟩⟩

theorem refine_error_kind (c : SecCfg) (ref q : OMap) (rev : Bool) (peak : Int) (e : Err) (hres : 1 ≤ c.res) (hb : 0 ≤ c.blur)
    (hq : q.positions ≠ []) (hr : ref.positions ≠ []) (h : refine c ref q rev peak = .error e) : e = .indexError := by
  rw [Peaks.refine_error, Peaks.refineCorrelation_error] at h
  rcases h with h | ⟨qs, _, h | ⟨rs, _, h⟩⟩
  · rw [Peaks.querySequence_error] at h
    exact (Peaks.sequenceOf_no_error _ _ _ _ _ e hres hb hq h).elim
  · exact (Peaks.sequenceOf_no_error _ _ _ _ _ e hres hb hr h).elim
  · exact Peaks.correlate_error rs qs e h

/-- the correlation is bounded by the number of set bits of the query vector -/
theorem refineCorrelation_le (c : SecCfg) (ref q : OMap) (rev : Bool) (peak : Int) (corr qs : List Nat)
    (hc : refineCorrelation c ref q rev peak = .ok corr) (hq : querySequence c q rev = .ok qs) :
    ∀ y ∈ corr, y ≤ sumNat qs := by
  obtain ⟨qs', rs, h1, h2, h3⟩ := (Peaks.refineCorrelation_ok c ref q rev peak corr).mp hc
  rw [hq] at h1
  cases h1
  exact Peaks.correlate_le rs qs corr (Peaks.sequenceOf_bits _ _ _ _ _ rs h2) h3

end Coma.Proofs
