import Props.Defs
import Proofs.Compose
import Proofs.Fields
namespace Coma.Proofs.SitesValid
open Coma Coma.Spec

theorem getElem?_mono (xs : List Int) (hs : xs.Pairwise (· < ·)) (i j : Nat) (a b : Int)
    (hi : xs[i]? = some a) (hj : xs[j]? = some b) (hij : i < j) : a < b := by
  obtain ⟨hi', rfl⟩ := List.getElem?_eq_some_iff.mp hi
  obtain ⟨hj', rfl⟩ := List.getElem?_eq_some_iff.mp hj
  exact (List.pairwise_iff_getElem.mp hs) i j hi' hj' hij

theorem getElem?_lt_iff (xs : List Int) (hs : xs.Pairwise (· < ·)) (i j : Nat) (a b : Int)
    (hi : xs[i]? = some a) (hj : xs[j]? = some b) : a < b ↔ i < j := by
  constructor
  · intro hab
    rcases Nat.lt_trichotomy i j with h | h | h
    · exact h
    · subst h
      rw [hi] at hj
      injection hj with hj
      omega
    · have := getElem?_mono xs hs j i b a hj hi h
      omega
  · exact getElem?_mono xs hs i j a b hi hj

theorem flatMap_single {α β} (p : α → Bool) (f : α → List β) : ∀ (l : List α),
    (l.filter p).length ≤ 1 → (∀ x ∈ l, p x = false → f x = []) →
    l.flatMap f = [] ∨ ∃ s ∈ l, l.flatMap f = f s
  | [], _, _ => Or.inl rfl
  | x :: t, h1, h0 => by
    cases hpx : p x with
    | false =>
      have hx : f x = [] := h0 x (List.mem_cons_self) hpx
      have h1' : (t.filter p).length ≤ 1 := by simpa [List.filter_cons, hpx] using h1
      rcases flatMap_single p f t h1' (fun y hy => h0 y (List.mem_cons_of_mem _ hy)) with h | ⟨s, hs, h⟩
      · left; simp [List.flatMap_cons, hx, h]
      · right; exact ⟨s, List.mem_cons_of_mem _ hs, by simp [List.flatMap_cons, hx, h]⟩
    | true =>
      have h1' : (t.filter p).length = 0 := by
        have : (t.filter p).length + 1 ≤ 1 := by simpa [List.filter_cons, hpx] using h1
        omega
      have hnil : t.filter p = [] := List.eq_nil_of_length_eq_zero h1'
      have ht : ∀ y ∈ t, f y = [] := by
        intro y hy
        apply h0 y (List.mem_cons_of_mem _ hy)
        have := (List.filter_eq_nil_iff.mp hnil) y hy
        simpa using this
      right
      refine ⟨x, List.mem_cons_self, ?_⟩
      have : t.flatMap f = [] := by
        rw [List.flatMap_eq_nil_iff]; exact ht
      simp [List.flatMap_cons, this]

end Coma.Proofs.SitesValid

namespace Coma.Proofs
open Coma Coma.Spec Coma.Proofs.SitesValid

/-- on a map with strictly ascending coordinates, label numbers and coordinates order the labels
    the same way on the forward strand and oppositely on the reverse strand -/
theorem labels_site_order (m : OMap) (rev : Bool) (hs : StrictAscending m.positions) (a b : Lbl)
    (ha : a ∈ m.labels rev) (hb : b ∈ m.labels rev) :
    a.pos < b.pos ↔ (if rev then b.site < a.site else a.site < b.site) := by
  obtain ⟨k, p, hk, hsa, hpa⟩ := ((labels_spec m rev).2 a).mp ha
  obtain ⟨k', p', hk', hsb, hpb⟩ := ((labels_spec m rev).2 b).mp hb
  have h1 := getElem?_lt_iff m.positions hs k k' p p' hk hk'
  have h2 := getElem?_lt_iff m.positions hs k' k p' p hk' hk
  cases rev with
  | false =>
    simp only [Bool.false_eq_true, if_false] at hpa hpb ⊢
    rw [hpa, hpb, hsa, hsb, h1]
    omega
  | true =>
    simp only [if_true] at hpa hpb ⊢
    rw [hpa, hpb, hsa, hsb]
    constructor
    · intro h
      have : p' < p := by omega
      have := h2.mp this
      omega
    · intro h
      have : k' < k := by omega
      have := h2.mpr this
      omega

/-- pairs that join real labels and are strictly ascending on both maps in COORDINATES form a
    valid matching in LABEL NUMBERS: reference numbers strictly ascending, query numbers strictly
    increasing for '+' and strictly decreasing for '-' -/
theorem valid_sites_of_ascending (ref qry : OMap) (rev : Bool)
    (hr : StrictAscending ref.positions) (hq : StrictAscending qry.positions) (ps : List Pr)
    (hreal : ∀ p ∈ ps, p.r ∈ ref.labels false ∧ p.q ∈ qry.labels rev)
    (hasc : ps.Pairwise (fun a b => a.r.pos < b.r.pos ∧ a.q.pos < b.q.pos)) :
    ValidMatching rev (sitePairs ps) := by
  unfold ValidMatching sitePairs
  rw [List.pairwise_map]
  refine hasc.imp_of_mem ?_
  intro a b ha hb hab
  obtain ⟨har, haq⟩ := hreal a ha
  obtain ⟨hbr, hbq⟩ := hreal b hb
  have h1 := (labels_site_order ref false hr a.r b.r har hbr).mp hab.1
  have h2 := (labels_site_order qry rev hq a.q b.q haq hbq).mp hab.2
  exact ⟨by simpa using h1, h2⟩

/-- C01 for a candidate built by the aligner, in label numbers: when the listed pairs of the row
    are strictly ascending on both maps in coordinates (which `resolveFrom_all_separated` +
    `separated_pairs_ascending` give when no resolver step takes the interior index merge and every
    final segment keeps a pair), the record is a one-to-one collinear matching of real labels -/
theorem candidate_sites_valid (P : Params) (C : ChainCfg) (hP : GoodParams P) (ref qry : OMap) (peaks : List Int)
    (rev : Bool) (it : Int) (hr : StrictAscending ref.positions) (hq : StrictAscending qry.positions)
    (row : Row) (h : alignerAlign P C ref qry peaks rev it = .ok row)
    (hasc : row.pairs.Pairwise (fun a b => a.r.pos < b.r.pos ∧ a.q.pos < b.q.pos)) :
    ValidMatching rev (sitePairs row.pairs) ∧
    (∀ p ∈ row.pairs, p.r ∈ ref.labels false ∧ p.q ∈ qry.labels rev) := by
  have hreal := alignerAlign_labels_real P C hP ref qry peaks rev it hr hq row h
  exact ⟨valid_sites_of_ascending ref qry rev hr hq row.pairs hreal hasc, hreal⟩

/-- a candidate with at most one non-empty segment is always a valid matching (single seed peak
    alignments, the common case) -/
theorem candidate_single_segment_valid (P : Params) (C : ChainCfg) (hP : GoodParams P) (ref qry : OMap) (peaks : List Int)
    (rev : Bool) (it : Int) (hr : StrictAscending ref.positions) (hq : StrictAscending qry.positions)
    (row : Row) (h : alignerAlign P C ref qry peaks rev it = .ok row)
    (h1 : (row.segments.filter (fun s => !s.items.isEmpty)).length ≤ 1) :
    ValidMatching rev (sitePairs row.pairs) := by
  have hreal := alignerAlign_labels_real P C hP ref qry peaks rev it hr hq row h
  have hseg := alignerAlign_segment_valid P C hP ref qry peaks rev it hr hq row h
  apply valid_sites_of_ascending ref qry rev hr hq row.pairs hreal
  have h0 : ∀ s ∈ row.segments, (!s.items.isEmpty) = false → Seg.pairs s = [] := by
    intro s _ hs
    have : s.items = [] := by simpa using hs
    simp [Seg.pairs, this]
  rcases flatMap_single (fun s : Seg => !s.items.isEmpty) Seg.pairs row.segments h1 h0 with hn | ⟨s, hs, he⟩
  · simp only [Row.pairs]; rw [hn]; exact List.Pairwise.nil
  · simp only [Row.pairs]; rw [he]; exact hseg s hs

end Coma.Proofs
