import Props.Defs
import Proofs.Pairing
import Proofs.Mirror_Conflict
import Proofs.Mirror_Labels
import Proofs.Mirror_Dedup
import Proofs.Mirror_Align
namespace Coma.Proofs
open Coma Coma.Spec

/-- a trimmed molecule: first label at 0, length = last label + 1, no label-number offset -/
def Trimmed (m : OMap) : Prop :=
  m.shift = 0 ∧ m.positions.head? = some 0 ∧ m.length = lastD 0 m.positions + 1 ∧ Ascending m.positions

/-- mirroring a molecule mirrors its labels: read on the other strand it has the same coordinates
    in the same order, with label k renumbered to n+1−k -/
theorem labels_mirror (m : OMap) (rev : Bool) (hs : m.shift = 0) :
    m.mirror.labels (!rev) =
      (m.labels rev).map (fun l => ⟨(m.positions.length : Int) + 1 - l.site, l.pos⟩) :=
  Mirror.labels_mirror' m rev hs

/-- the mirror image of a trimmed molecule is trimmed, and mirroring twice gives it back -/
theorem mirror_trimmed (m : OMap) (h : Trimmed m) : Trimmed m.mirror ∧ m.mirror.mirror = m :=
  ⟨Mirror.mirror_trimmed' m h, Mirror.mirror_mirror m⟩

/-- pairing commutes with an injective renumbering of the query labels when no reference label
    has two equidistant query partners (and unconditionally with a change of `source`) -/
theorem dedup_relabel (σ τ : Int → Int) (hσ : ∀ a b, σ a = σ b → a = b) (md start it : Int) (refs qs : List Lbl)
    (hq : Ascending (qs.map (·.pos))) (hnt : NoTies md start refs qs)
    (hrs : (refs.map (·.site)).Nodup) (hqs : (qs.map (·.site)).Nodup) :
    dedup ((candidates md start it refs qs).map (relabelPr σ τ)) =
      (dedup (candidates md start it refs qs)).map (relabelPr σ τ) :=
  have _ := hqs
  Mirror.dedup_relabel' σ τ hσ md start it refs qs hq hnt hrs

/-- the position list of a seed peak for the mirrored query on the other strand is the position
    list of the query, with query labels renumbered -/
theorem engineAlign_mirror (md : Int) (ref qry : OMap) (start stop : Int) (rev : Bool) (it : Int)
    (ht : Trimmed qry) (hnt : NoTies md start (refWindow md ref start stop) (qry.labels rev)) :
    engineAlign md ref qry.mirror start stop (!rev) it =
      (engineAlign md ref qry start stop rev it).map (relabelAPos (fun k => (qry.positions.length : Int) + 1 - k) id) :=
  Mirror.engineAlign_mirror' md ref qry start stop rev it ht.1 ht.2.2.2 hnt

/- The unconditional statement `resolveConflicts P C (segs.map (relabelSeg σ τ)) = …` for every
   injective σ is FALSE (corner case: the null pair ⟨0,0⟩ is compared by label equality, so a
   renumbering that moves label number 0 at coordinate 0 is observable): kernel-checked refutation
   `Mirror.not_resolveConflicts_relabel` at the end of this file.  The provable variants are
   `resolveConflicts_relabel_of` (σ fixes "is number 0" on labels at coordinate 0) and
   `resolveConflicts_relabel_id` (σ = id). -/

/-- the provable form of `resolveConflicts_relabel`: `endOverlapsWithStartOf` compares the end pair
    of the left segment with `nullPr` (query label `⟨0,0⟩`) when the right segment is empty, so a
    query label at position 0 must be numbered 0 before the renumbering iff it is after.
    Counterexample without `hz` (σ k = k+1, P = {sp:=10,dp:=1,su:=-6,md:=3,minScore:=1,bst:=0}):
    `[⟨0,[.pair ⟨⟨1,-10⟩,⟨7,-10⟩,0,0⟩, .uref ⟨2,1⟩, .uref ⟨3,2⟩, .pair ⟨⟨4,5⟩,⟨0,0⟩,0,0⟩]⟩, ⟨0,[]⟩]`. -/
theorem resolveConflicts_relabel_of (σ τ : Int → Int) (hσ : ∀ a b, σ a = σ b → a = b) (P : Params) (C : ChainCfg)
    (segs : List Seg)
    (hz : ∀ s ∈ segs, ∀ p ∈ s.pairs, p.q.pos = 0 → (σ p.q.site = 0 ↔ p.q.site = 0)) :
    resolveConflicts P C (segs.map (relabelSeg σ τ)) =
      (resolveConflicts P C segs).map (List.map (relabelSeg σ τ)) :=
  Mirror.resolveConflicts_relabel_of σ τ hσ P C segs hz

/-- a change of `source` alone (no renumbering) commutes unconditionally -/
theorem resolveConflicts_relabel_id (τ : Int → Int) (P : Params) (C : ChainCfg) (segs : List Seg) :
    resolveConflicts P C (segs.map (relabelSeg id τ)) =
      (resolveConflicts P C segs).map (List.map (relabelSeg id τ)) :=
  resolveConflicts_relabel_of id τ (fun _ _ h => h) P C segs (fun _ _ _ _ _ => Iff.rfl)

theorem getSegments_relabel (σ τ : Int → Int) (P : Params) (peak : Int) (xs : List APos) :
    getSegments P peak (xs.map (relabelAPos σ τ)) = (getSegments P peak xs).map (relabelSeg σ τ) :=
  Mirror.getSegments_relabel' σ τ P peak xs

/-- C11: the candidate built for the mirror image on the other strand from the same seed peaks is
    the mirror image of the candidate: same reference labels, query label k ↦ n+1−k, opposite
    orientation, same confidence -/
theorem alignerAlign_mirror (P : Params) (C : ChainCfg) (ref qry : OMap) (peaks : List Int) (rev : Bool) (it : Int)
    (ht : Trimmed qry)
    (hnt : ∀ peak ∈ peaks, NoTies P.md peak (refWindow P.md ref peak (peak + qry.length)) (qry.labels rev)) :
    alignerAlign P C ref qry.mirror peaks (!rev) it =
      (alignerAlign P C ref qry peaks rev it).map (mirrorRow qry.positions.length) :=
  Mirror.alignerAlign_mirror' P ref qry rev C peaks it ht.1 ht.2.2.2 hnt

theorem mirrorRow_confidence (n : Int) (r : Row) :
    (mirrorRow n r).confidence = r.confidence ∧ (mirrorRow n r).rev = !r.rev ∧
    (mirrorRow n r).pairs.map (fun p => (p.r, p.q.pos)) = r.pairs.map (fun p => (p.r, p.q.pos)) ∧
    (mirrorRow n r).pairs.map (fun p => p.q.site) = r.pairs.map (fun p => n + 1 - p.q.site) := by
  refine ⟨rfl, rfl, ?_, ?_⟩
  · simp only [mirrorRow, Row.pairs, List.flatMap_map, Mirror.segPairs_relabel, List.map_flatMap, List.map_map]
    rfl
  · simp only [mirrorRow, Row.pairs, List.flatMap_map, Mirror.segPairs_relabel, List.map_flatMap, List.map_map]
    rfl

end Coma.Proofs

namespace Coma.Proofs.Mirror
open Coma Coma.Spec

def firstLen (e : Except Err (List Seg)) : Nat :=
  match e with
  | .ok (s :: _) => s.items.length
  | _ => 0

/-- kernel-checked refutation of `Coma.Proofs.resolveConflicts_relabel` as stated (σ k = k+1 moves the
    query label `⟨0,0⟩`, which `endOverlapsWithStartOf` compares with `nullPr` when the right segment
    is empty): the renumbered run reports no overlap and keeps all four items of the left segment, the
    original run takes the `dropLeft` branch and keeps one -/
theorem not_resolveConflicts_relabel :
    ¬ ∀ (σ τ : Int → Int) (_ : ∀ a b, σ a = σ b → a = b) (P : Params) (C : ChainCfg) (segs : List Seg),
      resolveConflicts P C (segs.map (relabelSeg σ τ)) =
        (resolveConflicts P C segs).map (List.map (relabelSeg σ τ)) := by
  intro h
  have := h (fun k => k + 1) id (by intro a b h; omega)
    { sp := 10, dp := 1, su := -6, md := 3, minScore := 1, bst := 0 } {}
    [⟨0, [.pair ⟨⟨1, -10⟩, ⟨7, -10⟩, 0, 0⟩, .uref ⟨2, 1⟩, .uref ⟨3, 2⟩, .pair ⟨⟨4, 5⟩, ⟨0, 0⟩, 0, 0⟩]⟩, ⟨0, []⟩]
  have := congrArg firstLen this
  revert this
  decide

end Coma.Proofs.Mirror
