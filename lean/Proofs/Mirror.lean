import Props.Defs
import Proofs.Pairing
namespace Coma.Proofs
open Coma Coma.Spec

/-- a trimmed molecule: first label at 0, length = last label + 1, no label-number offset -/
def Trimmed (m : OMap) : Prop :=
  m.shift = 0 ∧ m.positions.head? = some 0 ∧ m.length = lastD 0 m.positions + 1 ∧ Ascending m.positions

/-- mirroring a molecule mirrors its labels: read on the other strand it has the same coordinates
    in the same order, with label k renumbered to n+1−k -/
theorem labels_mirror (m : OMap) (rev : Bool) (hs : m.shift = 0) :
    m.mirror.labels (!rev) =
      (m.labels rev).map (fun l => ⟨(m.positions.length : Int) + 1 - l.site, l.pos⟩) := by
  sorry

/-- the mirror image of a trimmed molecule is trimmed, and mirroring twice gives it back -/
theorem mirror_trimmed (m : OMap) (h : Trimmed m) : Trimmed m.mirror ∧ m.mirror.mirror = m := by
  sorry

/-- pairing commutes with an injective renumbering of the query labels when no reference label
    has two equidistant query partners (and unconditionally with a change of `source`) -/
theorem dedup_relabel (σ τ : Int → Int) (hσ : ∀ a b, σ a = σ b → a = b) (md start it : Int) (refs qs : List Lbl)
    (hq : Ascending (qs.map (·.pos))) (hnt : NoTies md start refs qs)
    (hrs : (refs.map (·.site)).Nodup) (hqs : (qs.map (·.site)).Nodup) :
    dedup ((candidates md start it refs qs).map (relabelPr σ τ)) =
      (dedup (candidates md start it refs qs)).map (relabelPr σ τ) := by
  sorry

/-- the position list of a seed peak for the mirrored query on the other strand is the position
    list of the query, with query labels renumbered -/
theorem engineAlign_mirror (md : Int) (ref qry : OMap) (start stop : Int) (rev : Bool) (it : Int)
    (ht : Trimmed qry) (hnt : NoTies md start (refWindow md ref start stop) (qry.labels rev)) :
    engineAlign md ref qry.mirror start stop (!rev) it =
      (engineAlign md ref qry start stop rev it).map (relabelAPos (fun k => (qry.positions.length : Int) + 1 - k) id) := by
  sorry

/-- everything after pairing — scoring, segment cutting, chaining (the join score is strand-blind),
    conflict resolution — commutes with an injective renumbering of query labels -/
theorem resolveConflicts_relabel (σ τ : Int → Int) (hσ : ∀ a b, σ a = σ b → a = b) (P : Params) (C : ChainCfg) (segs : List Seg) :
    resolveConflicts P C (segs.map (relabelSeg σ τ)) =
      (resolveConflicts P C segs).map (List.map (relabelSeg σ τ)) := by
  sorry

theorem getSegments_relabel (σ τ : Int → Int) (P : Params) (peak : Int) (xs : List APos) :
    getSegments P peak (xs.map (relabelAPos σ τ)) = (getSegments P peak xs).map (relabelSeg σ τ) := by
  sorry

/-- C11: the candidate built for the mirror image on the other strand from the same seed peaks is
    the mirror image of the candidate: same reference labels, query label k ↦ n+1−k, opposite
    orientation, same confidence -/
theorem alignerAlign_mirror (P : Params) (C : ChainCfg) (ref qry : OMap) (peaks : List Int) (rev : Bool) (it : Int)
    (ht : Trimmed qry)
    (hnt : ∀ peak ∈ peaks, NoTies P.md peak (refWindow P.md ref peak (peak + qry.length)) (qry.labels rev)) :
    alignerAlign P C ref qry.mirror peaks (!rev) it =
      (alignerAlign P C ref qry peaks rev it).map (mirrorRow qry.positions.length) := by
  sorry

theorem mirrorRow_confidence (n : Int) (r : Row) :
    (mirrorRow n r).confidence = r.confidence ∧ (mirrorRow n r).rev = !r.rev ∧
    (mirrorRow n r).pairs.map (fun p => (p.r, p.q.pos)) = r.pairs.map (fun p => (p.r, p.q.pos)) ∧
    (mirrorRow n r).pairs.map (fun p => p.q.site) = r.pairs.map (fun p => n + 1 - p.q.site) := by
  sorry

end Coma.Proofs
