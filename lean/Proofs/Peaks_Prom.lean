/-
  Proofs/Peaks_Prom.lean — `runMin`, `prominence`, `maxInit0` (helper for Proofs/Peaks.lean)
-/
import Coma.Peaks
namespace Coma.Proofs.Peaks
open Coma

theorem runMin_spec (v : Int) : ∀ (ys : List Int) (cur : Int),
    ∃ n, n ≤ ys.length ∧
      (∀ j, j < n → ∃ y, ys[j]? = some y ∧ y ≤ v ∧ runMin v cur ys ≤ y) ∧
      (n = ys.length ∨ ∃ y, ys[n]? = some y ∧ v < y) ∧
      runMin v cur ys ≤ cur ∧
      (runMin v cur ys = cur ∨ ∃ j, j < n ∧ ys[j]? = some (runMin v cur ys)) := by
  intro ys
  induction ys with
  | nil =>
    intro cur
    exact ⟨0, Nat.le_refl _, fun j hj => by omega, Or.inl rfl, by simp [runMin], Or.inl (by simp [runMin])⟩
  | cons y ys ih =>
    intro cur
    unfold runMin
    by_cases hy : y ≤ v
    · rw [if_pos hy]
      obtain ⟨n, h1, h2, h3, h4, h5⟩ := ih (min cur y)
      refine ⟨n + 1, by simp; omega, fun j hj => ?_, ?_, by omega, ?_⟩
      · cases j with
        | zero => exact ⟨y, rfl, hy, by omega⟩
        | succ j =>
          obtain ⟨z, hz1, hz2, hz3⟩ := h2 j (by omega)
          exact ⟨z, by simpa using hz1, hz2, hz3⟩
      · rcases h3 with h3 | ⟨z, hz1, hz2⟩
        · left; simp; exact h3
        · right; exact ⟨z, by simpa using hz1, hz2⟩
      · rcases h5 with h5 | ⟨j, hj1, hj2⟩
        · by_cases hc : cur ≤ y
          · left; omega
          · right
            refine ⟨0, by omega, ?_⟩
            have : runMin v (min cur y) ys = y := by omega
            rw [this]; rfl
        · right; exact ⟨j + 1, by omega, by simpa using hj2⟩
    · rw [if_neg hy]
      exact ⟨0, Nat.zero_le _, fun j hj => by omega, Or.inr ⟨y, rfl, by omega⟩, Int.le_refl _, Or.inl rfl⟩

theorem runMin_le (v : Int) (ys : List Int) (cur : Int) : runMin v cur ys ≤ cur := by
  obtain ⟨_, _, _, _, h, _⟩ := runMin_spec v ys cur
  exact h

theorem prominence_spec' (x : List Int) (p : Nat) (v : Int) (hv : x[p]? = some v) :
    ∃ lo hi, lo ≤ p ∧ p ≤ hi ∧ hi < x.length ∧
      (∀ i, lo ≤ i → i ≤ hi → ∃ y, x[i]? = some y ∧ y ≤ v) ∧
      (lo = 0 ∨ ∃ y, x[lo - 1]? = some y ∧ v < y) ∧
      (hi + 1 = x.length ∨ ∃ y, x[hi + 1]? = some y ∧ v < y) ∧
      ∃ lm rm,
        (∃ i, lo ≤ i ∧ i ≤ p ∧ x[i]? = some lm) ∧ (∀ i y, lo ≤ i → i ≤ p → x[i]? = some y → lm ≤ y) ∧
        (∃ i, p ≤ i ∧ i ≤ hi ∧ x[i]? = some rm) ∧ (∀ i y, p ≤ i → i ≤ hi → x[i]? = some y → rm ≤ y) ∧
        prominence x p = v - max lm rm := by
  have hp : p < x.length := by
    rcases Nat.lt_or_ge p x.length with h | h
    · exact h
    · rw [List.getElem?_eq_none h] at hv; cases hv
  obtain ⟨nl, hl1, hl2, hl3, hl4, hl5⟩ := runMin_spec v (x.take p).reverse v
  obtain ⟨nr, hr1, hr2, hr3, hr4, hr5⟩ := runMin_spec v (x.drop (p + 1)) v
  have lenL : (x.take p).reverse.length = p := by simp; omega
  have lenR : (x.drop (p + 1)).length = x.length - (p + 1) := by simp
  have getL : ∀ j, j < p → (x.take p).reverse[j]? = x[p - 1 - j]? := by
    intro j hj
    rw [List.getElem?_reverse (by simp; omega), List.getElem?_take]
    have e : (x.take p).length = p := by simp; omega
    rw [e, if_pos (by omega)]
  have getR : ∀ j, (x.drop (p + 1))[j]? = x[p + 1 + j]? := by
    intro j; rw [List.getElem?_drop]
  rw [lenL] at hl1 hl3
  rw [lenR] at hr1 hr3
  clear lenL lenR
  have hhi : p + nr < x.length := by clear hl3 hr3 hl5 hr5; omega
  refine ⟨p - nl, p + nr, Nat.sub_le _ _, Nat.le_add_right _ _, hhi, ?_, ?_, ?_,
    runMin v v (x.take p).reverse, runMin v v (x.drop (p + 1)), ?_, ?_, ?_, ?_, ?_⟩
  · clear hl3 hr3 hl5 hr5
    intro i hi1 hi2
    rcases Nat.lt_trichotomy i p with h | h | h
    · obtain ⟨y, hy1, hy2, _⟩ := hl2 (p - 1 - i) (by omega)
      rw [getL _ (by omega)] at hy1
      have e : p - 1 - (p - 1 - i) = i := by omega
      rw [e] at hy1
      exact ⟨y, hy1, hy2⟩
    · subst h; exact ⟨v, hv, Int.le_refl _⟩
    · obtain ⟨y, hy1, hy2, _⟩ := hr2 (i - p - 1) (by omega)
      rw [getR] at hy1
      have e : p + 1 + (i - p - 1) = i := by omega
      rw [e] at hy1
      exact ⟨y, hy1, hy2⟩
  · clear hr3 hl5 hr5
    rcases hl3 with h | ⟨y, hy1, hy2⟩
    · left; omega
    · right
      have hn : nl < p := by
        rcases Nat.lt_or_ge nl p with h | h
        · exact h
        · rw [List.getElem?_eq_none (by simp; omega)] at hy1; cases hy1
      rw [getL _ hn] at hy1
      have e : p - 1 - nl = p - nl - 1 := by omega
      rw [e] at hy1
      exact ⟨y, hy1, hy2⟩
  · clear hl3 hl5 hr5
    rcases hr3 with h | ⟨y, hy1, hy2⟩
    · left; omega
    · right
      rw [getR] at hy1
      have e : p + 1 + nr = p + nr + 1 := by omega
      rw [e] at hy1
      exact ⟨y, hy1, hy2⟩
  · clear hl3 hr3 hr5
    rcases hl5 with h | ⟨j, hj1, hj2⟩
    · exact ⟨p, by omega, Nat.le_refl _, by rw [h]; exact hv⟩
    · rw [getL _ (by omega)] at hj2
      exact ⟨p - 1 - j, by omega, by omega, hj2⟩
  · clear hl3 hr3 hl5 hr5
    intro i y hi1 hi2 hy
    by_cases h : i = p
    · subst h; rw [hv] at hy; cases hy; exact hl4
    · obtain ⟨z, hz1, _, hz3⟩ := hl2 (p - 1 - i) (by omega)
      rw [getL _ (by omega)] at hz1
      have e : p - 1 - (p - 1 - i) = i := by omega
      rw [e, hy] at hz1
      cases hz1; exact hz3
  · clear hl3 hr3 hl5
    rcases hr5 with h | ⟨j, hj1, hj2⟩
    · exact ⟨p, Nat.le_refl _, by omega, by rw [h]; exact hv⟩
    · rw [getR] at hj2
      exact ⟨p + 1 + j, by omega, by omega, hj2⟩
  · clear hl3 hr3 hl5 hr5
    intro i y hi1 hi2 hy
    by_cases h : i = p
    · subst h; rw [hv] at hy; cases hy; exact hr4
    · obtain ⟨z, hz1, _, hz3⟩ := hr2 (i - p - 1) (by omega)
      rw [getR] at hz1
      have e : p + 1 + (i - p - 1) = i := by omega
      rw [e, hy] at hz1
      cases hz1; exact hz3
  · unfold prominence
    rw [hv]

theorem prominence_nonneg' (x : List Int) (p : Nat) : 0 ≤ prominence x p := by
  unfold prominence
  cases h : x[p]? with
  | none => exact Int.le_refl _
  | some v =>
    have h1 := runMin_le v (x.take p).reverse v
    have h2 := runMin_le v (x.drop (p + 1)) v
    simp only []
    omega

theorem maxInit0_spec' (x : List Int) :
    0 ≤ maxInit0 x ∧ (∀ y ∈ x, y ≤ maxInit0 x) ∧ (maxInit0 x = 0 ∨ maxInit0 x ∈ x) := by
  induction x with
  | nil => simp [maxInit0]
  | cons a xs ih =>
    obtain ⟨h1, h2, h3⟩ := ih
    unfold maxInit0
    refine ⟨by omega, ?_, ?_⟩
    · intro y hy
      rcases List.mem_cons.mp hy with rfl | hy
      · omega
      · have := h2 y hy; omega
    · by_cases h : maxInit0 xs ≤ a
      · right
        have : max a (maxInit0 xs) = a := by omega
        rw [this]; exact List.mem_cons_self
      · have e : max a (maxInit0 xs) = maxInit0 xs := by omega
        rw [e]
        rcases h3 with h3 | h3
        · left; exact h3
        · right; exact List.mem_cons_of_mem _ h3

end Coma.Proofs.Peaks
