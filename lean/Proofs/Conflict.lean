import Props.Defs
namespace Coma.Proofs
open Coma Coma.Spec

theorem resolve_sublist (P : Params) (L R l r : Seg) (b : Branch) (h : resolvePairB P L R = .ok (l, r, b)) :
    l.items.Sublist L.items ∧ r.items.Sublist R.items ∧ l.peak = L.peak ∧ r.peak = R.peak := by
  sorry

theorem resolve_subrun (P : Params) (L R l r : Seg) (b : Branch) (h : resolvePairB P L R = .ok (l, r, b))
    (hL : LeftOK L) (hR : RightOK R) :
    l.items <+: L.items ∧ r.items <:+ R.items := by
  sorry

theorem resolve_keeps_outside (P : Params) (L R l r : Seg) (b : Branch) (h : resolvePairB P L R = .ok (l, r, b))
    (hL : LeftOK L) (hR : RightOK R) (cs ce : Pr)
    (hcs : R.pairs.head? = some cs) (hce : L.pairs.getLast? = some ce) :
    (L.items.takeWhile (fun p => p.lessOnBoth cs)) <+: l.items ∧
    (R.items.dropWhile (fun p => !p.isPair || p.leqAny ce)) <:+ r.items := by
  sorry

theorem resolve_separated (P : Params) (L R l r : Seg) (b : Branch)
    (h : resolvePairB P L R = .ok (l, r, b)) (hL : LeftOK L) (hR : RightOK R) (hS : StrictCoords L R)
    (hb : b ≠ Branch.interior) : Separated l r := by
  sorry

/-- one step never raises on a LeftOK left and RightOK right segment -/
theorem resolve_total (P : Params) (L R : Seg) (hL : LeftOK L) (hR : RightOK R) :
    ∃ l r b, resolvePairB P L R = .ok (l, r, b) := by
  sorry

theorem interior_counterexample :
    ∃ l r, resolvePairB ⟨10, 2, -1, 1, 15, 5⟩
        ⟨0, [.pair ⟨⟨3, 7⟩, ⟨2, 7⟩, 0, 0⟩, .pair ⟨⟨4, 8⟩, ⟨1, 8⟩, 0, 0⟩]⟩
        ⟨9, [.pair ⟨⟨4, 8⟩, ⟨3, 0⟩, 1, 0⟩, .pair ⟨⟨5, 16⟩, ⟨2, 7⟩, 0, 0⟩]⟩ = .ok (l, r, Branch.interior) ∧
      sharesLabel l r = true := by
  sorry

end Coma.Proofs
