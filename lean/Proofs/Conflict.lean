import Props.Defs
import Proofs.Conflict_Shape
namespace Coma.Proofs.Conflict
open Coma Coma.Spec

theorem eq_ok_of_toOption {ε α} {e : Except ε α} {a : α} (h : e.toOption = some a) : e = .ok a := by
  cases e with
  | error _ => cases h
  | ok v => cases h; rfl

/-! ### `endOverlapsWithStartOf` -/

theorem endOverlaps_ok {L R : Seg} {ss se os oe : SP} (hss : L.startPos = .ok ss)
    (hse : L.endPos = .ok se) (hos : R.startPos = .ok os) (hoe : R.endPos = .ok oe) :
    ∃ ov, L.endOverlapsWithStartOf R = .ok ov := by
  unfold Seg.endOverlapsWithStartOf
  simp only [bind, Except.bind, pure, Except.pure, hss, hse, hos, hoe]
  split
  · exact ⟨_, rfl⟩
  · split
    · exact ⟨_, rfl⟩
    · split
      · exact ⟨_, rfl⟩
      · exact ⟨_, rfl⟩

/-- no overlap reported: the right start is not `≤` the left end on any map -/
theorem noOverlap_leqAny {L R : Seg} {se os : SP} (hne : L.items ≠ [])
    (h : L.endOverlapsWithStartOf R = .ok false)
    (hse : L.endPos = .ok se) (hos : R.startPos = .ok os) : os.leqAny se = false := by
  unfold Seg.endOverlapsWithStartOf at h
  simp only [bind, Except.bind, pure, Except.pure, hse, hos] at h
  rw [if_neg (by simpa using hne)] at h
  split at h
  · cases h
  · split at h
    · cases h
    · split at h
      · cases h
      · rename_i hx
        simpa using hx

/-! ### order facts used for separation -/

theorem strict_of_not_leqAny {L R : Seg} (hS : StrictCoords L R) {e s : Pr} (he : e ∈ L.pairs)
    (hs : s ∈ R.pairs) (h : s.leqAny e = false) : e.r.pos < s.r.pos ∧ e.q.pos < s.q.pos := by
  obtain ⟨h1, h2, h3, h4⟩ := leqAny_false h
  obtain ⟨g1, g2⟩ := hS e he s hs
  have n1 : e.r.pos ≠ s.r.pos := fun hh => h4 (g1 hh).symm
  have n2 : e.q.pos ≠ s.q.pos := fun hh => h3 (g2 hh).symm
  omega

theorem left_bound {L : Seg} {e : Pr} (hL : LeftOK L) (he : L.items.getLast? = some (.pair e)) :
    e ∈ L.pairs ∧ ∀ p ∈ L.pairs, p.r.pos ≤ e.r.pos ∧ p.q.pos ≤ e.q.pos := by
  obtain ⟨_, hp, _⟩ := last_pair he
  refine ⟨List.mem_of_getLast? hp, ?_⟩
  intro p hpm
  rcases pairs_le_last hL.asc hp p hpm with rfl | h
  · omega
  · omega

theorem right_bound {R : Seg} {c : Pr} {tl : List APos} (hR : RightOK R)
    (hc : R.items = .pair c :: tl) :
    c ∈ R.pairs ∧ ∀ p ∈ R.pairs, c.r.pos ≤ p.r.pos ∧ c.q.pos ≤ p.q.pos := by
  obtain ⟨_, hp, _⟩ := first_pair hc
  refine ⟨List.mem_of_head? hp, ?_⟩
  intro p hpm
  rcases pairs_ge_first hR.asc hp p hpm with rfl | h
  · omega
  · omega

end Coma.Proofs.Conflict

namespace Coma.Proofs
open Coma Coma.Spec Coma.Proofs.Conflict

theorem resolve_sublist (P : Params) (L R l r : Seg) (b : Branch) (h : resolvePairB P L R = .ok (l, r, b)) :
    l.items.Sublist L.items ∧ r.items.Sublist R.items ∧ l.peak = L.peak ∧ r.peak = R.peak := by
  rcases resolvePairB_cases h with ⟨_, rfl, rfl, _⟩ | ⟨_, _, rfl, rfl, _⟩ |
    ⟨_, _, cs, ce, Lc, Rc, _, _, _, _, ⟨_, rfl, rfl⟩ | ⟨_, rfl, rfl⟩ | ⟨_, li, ri, rfl, rfl⟩⟩
  all_goals
    first
    | exact ⟨List.Sublist.refl _, List.Sublist.refl _, rfl, rfl⟩
    | exact ⟨List.filter_sublist, List.Sublist.refl _, rfl, rfl⟩
    | exact ⟨List.Sublist.refl _, List.filter_sublist, rfl, rfl⟩
    | exact ⟨List.filter_sublist, List.filter_sublist, rfl, rfl⟩

theorem resolve_subrun (P : Params) (L R l r : Seg) (b : Branch) (h : resolvePairB P L R = .ok (l, r, b))
    (hL : LeftOK L) (hR : RightOK R) :
    l.items <+: L.items ∧ r.items <:+ R.items := by
  rcases resolve_shape h hL hR with ⟨_, rfl, rfl, _⟩ | ⟨_, _, rfl, rfl, _⟩ |
    ⟨cs, e, Lc, Rc, t, _, _, _, hLc, hRc, _, hT⟩
  · exact ⟨List.prefix_refl _, List.suffix_refl _⟩
  · exact ⟨List.prefix_refl _, List.suffix_refl _⟩
  · have hLs : L.items = L.items.takeWhile (fun p => p.lessOnBoth cs.toPr) ++ Lc.items := by
      rw [hLc, List.takeWhile_append_dropWhile]
    have hRs : R.items = Rc.items ++
        (t ++ R.items.dropWhile (fun p => !p.isPair || p.leqAny e)) := by
      rw [← List.append_assoc, ← hRc, List.takeWhile_append_dropWhile]
    rcases hT with ⟨_, hl, rfl⟩ | ⟨_, rfl, hr⟩ | ⟨_, li, ri, hl, hr⟩
    · exact ⟨hl ▸ List.takeWhile_prefix _, List.suffix_refl _⟩
    · refine ⟨List.prefix_refl _, ?_⟩
      rw [hr]; exact ⟨Rc.items, hRs.symm⟩
    · constructor
      · rw [hl]
        refine ⟨Lc.items.drop li, ?_⟩
        rw [List.append_assoc, List.take_append_drop]; exact hLs.symm
      · rw [hr]
        refine ⟨Rc.items.take ri, ?_⟩
        rw [← List.append_assoc, List.take_append_drop]; exact hRs.symm

theorem resolve_keeps_outside (P : Params) (L R l r : Seg) (b : Branch) (h : resolvePairB P L R = .ok (l, r, b))
    (hL : LeftOK L) (hR : RightOK R) (cs ce : Pr)
    (hcs : R.pairs.head? = some cs) (hce : L.pairs.getLast? = some ce) :
    (L.items.takeWhile (fun p => p.lessOnBoth cs)) <+: l.items ∧
    (R.items.dropWhile (fun p => !p.isPair || p.leqAny ce)) <:+ r.items := by
  rcases resolve_shape h hL hR with ⟨_, rfl, rfl, _⟩ | ⟨_, _, rfl, rfl, _⟩ |
    ⟨cs', e, Lc, Rc, t, _, he, hRsh, hLc, hRc, _, hT⟩
  · exact ⟨List.takeWhile_prefix _, List.dropWhile_suffix _⟩
  · exact ⟨List.takeWhile_prefix _, List.dropWhile_suffix _⟩
  · -- identify the two given pairs with the ones the resolver used
    obtain ⟨_, hp, _⟩ := last_pair he
    rw [hp] at hce
    injection hce with hce
    subst hce
    have hcs' : cs' = .pr cs := by
      rcases hRsh with ⟨h0, _⟩ | ⟨c, tl, hc, rfl⟩
      · rw [pairs_nil_of_items_nil h0] at hcs; cases hcs
      · obtain ⟨_, hp', _⟩ := first_pair hc
        rw [hp'] at hcs
        injection hcs with hcs
        rw [hcs]
    subst hcs'
    rcases hT with ⟨_, hl, rfl⟩ | ⟨_, rfl, hr⟩ | ⟨_, li, ri, hl, hr⟩
    · exact ⟨hl ▸ List.prefix_refl _, List.dropWhile_suffix _⟩
    · refine ⟨List.takeWhile_prefix _, ?_⟩
      rw [hr]; exact List.suffix_append _ _
    · constructor
      · rw [hl]; exact List.prefix_append _ _
      · rw [hr]
        exact List.suffix_append_of_suffix (List.suffix_append _ _)

theorem resolve_separated (P : Params) (L R l r : Seg) (b : Branch)
    (h : resolvePairB P L R = .ok (l, r, b)) (hL : LeftOK L) (hR : RightOK R) (hS : StrictCoords L R)
    (hb : b ≠ Branch.interior) : Separated l r := by
  rcases resolve_shape h hL hR with ⟨h0, hl, hr, _⟩ | ⟨hne, hov, hl, hr, _⟩ |
    ⟨cs, e, Lc, Rc, t, hst, he, hRsh, hLc, hRc, htu, hT⟩
  · -- emptyLeft
    subst l; subst r
    intro p hp
    rw [pairs_nil_of_items_nil h0] at hp; cases hp
  · -- noOverlap
    subst l; subst r
    intro p hp p' hp'
    by_cases hR0 : R.items = []
    · rw [pairs_nil_of_items_nil hR0] at hp'; cases hp'
    · obtain ⟨c, tl, hc⟩ := rightOK_first hR hR0
      obtain ⟨e, he⟩ := leftOK_last hL hne
      obtain ⟨_, _, hend⟩ := last_pair he
      obtain ⟨_, _, hstart⟩ := first_pair hc
      have hno : c.leqAny e = false := noOverlap_leqAny hne hov hend hstart
      obtain ⟨heL, hle⟩ := left_bound hL he
      obtain ⟨hcR, hge⟩ := right_bound hR hc
      have := strict_of_not_leqAny hS heL hcR hno
      have := hle p hp
      have := hge p' hp'
      omega
  · rcases hT with ⟨_, hl, hr⟩ | ⟨_, hl, hr⟩ | ⟨hi, _⟩
    · -- index0 / dropLeft : what is left of `L` is below `cs` on both maps
      subst r
      intro p hp p' hp'
      rcases hRsh with ⟨h0, _⟩ | ⟨c, tl, hc, rfl⟩
      · rw [pairs_nil_of_items_nil h0] at hp'; cases hp'
      · have hm : APos.pair p ∈ l.items := mem_pairs.mp hp
        rw [hl] at hm
        have hlt : p.lessOnBoth c = true :=
          mem_takeWhile_imp (p := fun (a : APos) => a.lessOnBoth (SP.pr c).toPr) hm
        have hlt := lessOnBoth_iff.mp hlt
        obtain ⟨_, hge⟩ := right_bound hR hc
        have := hge p' hp'
        omega
    · -- indexN / dropRight : what is left of `R` starts at a pair above `e` on both maps
      subst l
      intro p hp p' hp'
      have hrp : r.pairs = pairsOf (R.items.dropWhile (fun p => !p.isPair || p.leqAny e)) := by
        rw [pairs_eq_pairsOf, hr, pairsOf_append, pairsOf_eq_nil htu, List.nil_append]
      rw [hrp] at hp'
      cases hdw : R.items.dropWhile (fun p => !p.isPair || p.leqAny e) with
      | nil => rw [hdw] at hp'; cases hp'
      | cons s dw =>
        rw [hdw] at hp'
        have hs : (!s.isPair || s.leqAny e) = false :=
          dropWhile_eq_cons (p := fun (a : APos) => !a.isPair || a.leqAny e) hdw
        have hsplit : R.items = R.items.takeWhile (fun p => !p.isPair || p.leqAny e) ++ s :: dw := by
          rw [← hdw, List.takeWhile_append_dropWhile]
        cases s with
        | uref _ => simp [APos.isPair] at hs
        | uqry _ _ => simp [APos.isPair] at hs
        | pair s' =>
          have hs' : s'.leqAny e = false := by simpa [APos.isPair, APos.leqAny] using hs
          have hsR : s' ∈ R.pairs := by
            apply mem_pairs.mpr
            rw [hsplit]; simp
          obtain ⟨heL, hle⟩ := left_bound hL he
          have hstrict := strict_of_not_leqAny hS heL hsR hs'
          have hasc : (pairsOf R.items).Pairwise
              (fun a b => a.r.pos < b.r.pos ∧ a.q.pos < b.q.pos) := hR.asc
          rw [hsplit, pairsOf_append] at hasc
          have hasc2 := (List.pairwise_append.mp hasc).2.1
          have hcons : pairsOf (APos.pair s' :: dw) = s' :: pairsOf dw := rfl
          rw [hcons] at hasc2 hp'
          have := hle p hp
          rcases List.mem_cons.mp hp' with rfl | hp'
          · omega
          · have := List.rel_of_pairwise_cons hasc2 hp'
            omega
    · exact absurd hi hb

/-- one step never raises on a LeftOK left and RightOK right segment -/
theorem resolve_total (P : Params) (L R : Seg) (hL : LeftOK L) (hR : RightOK R) :
    ∃ l r b, resolvePairB P L R = .ok (l, r, b) := by
  apply resolvePairB_ok_of
  by_cases hne : L.items = []
  · exact Or.inl hne
  · right
    obtain ⟨e, he⟩ := leftOK_last hL hne
    obtain ⟨_, hpe, hend⟩ := last_pair he
    -- the left segment has a pair, so its start position exists
    have hss : ∃ ss, L.startPos = .ok ss := by
      unfold Seg.startPos
      rw [if_neg (by simpa using hne)]
      cases hp : L.pairs with
      | nil => rw [hp] at hpe; cases hpe
      | cons a _ => exact ⟨_, rfl⟩
    obtain ⟨ss, hss⟩ := hss
    by_cases hR0 : R.items = []
    · obtain ⟨ov, hov⟩ := endOverlaps_ok hss hend (startPos_empty hR0) (endPos_empty hR0)
      refine ⟨ov, hov, fun _ => ⟨.null, .pr e, _, _, startPos_empty hR0, hend,
        slice_left hL.asc he .null, slice_empty hR0 _ _⟩⟩
    · obtain ⟨c, tl, hc⟩ := rightOK_first hR hR0
      obtain ⟨_, hpc, hstart⟩ := first_pair hc
      have hoe : ∃ oe, R.endPos = .ok oe := by
        unfold Seg.endPos
        rw [if_neg (by simpa using hR0)]
        cases hp : R.pairs.getLast? with
        | none =>
          rw [List.getLast?_eq_none_iff] at hp
          rw [hp] at hpc; cases hpc
        | some a => exact ⟨_, rfl⟩
      obtain ⟨oe, hoe⟩ := hoe
      obtain ⟨ov, hov⟩ := endOverlaps_ok hss hend hstart hoe
      obtain ⟨Rc, t, hRc, _, _⟩ := slice_right hc (.pr e)
      exact ⟨ov, hov, fun _ => ⟨.pr c, .pr e, _, Rc, hstart, hend, slice_left hL.asc he _, hRc⟩⟩

theorem interior_counterexample :
    ∃ l r, resolvePairB ⟨10, 2, -1, 1, 15, 5⟩
        ⟨0, [.pair ⟨⟨3, 7⟩, ⟨2, 7⟩, 0, 0⟩, .pair ⟨⟨4, 8⟩, ⟨1, 8⟩, 0, 0⟩]⟩
        ⟨9, [.pair ⟨⟨4, 8⟩, ⟨3, 0⟩, 1, 0⟩, .pair ⟨⟨5, 16⟩, ⟨2, 7⟩, 0, 0⟩]⟩ = .ok (l, r, Branch.interior) ∧
      sharesLabel l r = true := by
  refine ⟨⟨0, [.pair ⟨⟨3, 7⟩, ⟨2, 7⟩, 0, 0⟩]⟩, ⟨9, [.pair ⟨⟨5, 16⟩, ⟨2, 7⟩, 0, 0⟩]⟩, ?_, ?_⟩
  · apply eq_ok_of_toOption
    decide +kernel
  · decide +kernel

end Coma.Proofs
