/-
  Proofs/FirstRun.lean — C13, completeness for the FIRST run of a position list.

  The harness oracle (`oracle_segs`, clause (g)) says: from the first positive score on, follow the running sum until the
  first break (sum ≤ 0, or sum ≤ running maximum − threshold); if the maximum reached before that break is at least
  `minScore`, that run qualifies and must be the first segment reported (in particular the result is not the single
  empty segment).  `firstRun` is that specification as an executable function, the theorem says the factory's scan agrees.
-/
import Proofs.ScanInv
namespace Coma.Proofs
open Coma Coma.Spec

/-- follow the running sum from position `k` (sum so far `acc`, maximum so far `best` reached at end index `arg`) -/
def firstRunGo (bst : Int) : (k : Nat) → (acc best : Int) → (arg : Nat) → List Int → Int × Nat
  | _, _, best, arg, []      => (best, arg)
  | k, acc, best, arg, s :: ss =>
    let acc' := acc + s
    if acc' ≤ max 0 (best - bst) then (best, arg)
    else if acc' > best then firstRunGo bst (k + 1) acc' acc' (k + 1) ss
    else firstRunGo bst (k + 1) acc' best arg ss

/-- the first qualifying run: start = index of the first positive score, stop / score = where the running maximum
    before the first break is reached; `none` if that maximum is below `minScore` (or there is no positive score) -/
def firstRun (ms bst : Int) (scores : List Int) : Option Rng :=
  let i0 := (scores.takeWhile (· ≤ 0)).length
  match scores.drop i0 with
  | []      => none
  | s :: ss =>
    let (best, arg) := firstRunGo bst (i0 + 1) s s (i0 + 1) ss
    if ms ≤ best then some ⟨i0, arg, best⟩ else none

theorem flush_res_head (ms : Int) (st : ScanSt) (x : Rng) (h : st.res.head? = some x) :
    (st.flush ms).res.head? = some x := by
  unfold ScanSt.flush
  split
  · split
    · cases hr : st.res with
      | nil => rw [hr] at h; simp at h
      | cons a t => rw [hr] at h; simpa using h
    · exact h
  · exact h

theorem scanStep_res_head (ms bst : Int) (st : ScanSt) (e : Nat) (s : Int) (x : Rng)
    (h : st.res.head? = some x) : (scanStep ms bst st e s).res.head? = some x := by
  unfold scanStep
  simp only
  split
  · exact flush_res_head ms st x h
  · split <;> exact h

theorem scanFrom_res_head (ms bst : Int) (x : Rng) : ∀ (l : List Int) (st : ScanSt) (e : Nat),
    st.res.head? = some x → (scanFrom ms bst st e l).res.head? = some x := by
  intro l
  induction l with
  | nil => intro st e h; exact h
  | cons s ss ih => intro st e h; exact ih _ _ (scanStep_res_head ms bst st e s x h)

theorem scanFrom_append (ms bst : Int) : ∀ (l1 l2 : List Int) (st : ScanSt) (e : Nat),
    scanFrom ms bst st e (l1 ++ l2) = scanFrom ms bst (scanFrom ms bst st e l1) (e + l1.length) l2 := by
  intro l1
  induction l1 with
  | nil => intro l2 st e; rfl
  | cons s ss ih =>
    intro l2 st e
    show scanFrom ms bst (scanStep ms bst st e s) (e + 1) (ss ++ l2) = _
    rw [ih]
    have : e + 1 + ss.length = e + (s :: ss).length := by simp; omega
    rw [this]; rfl

/-- leading non-positive scores only move `start` -/
theorem scanFrom_lead (ms bst : Int) (hb : 0 ≤ bst) : ∀ (l : List Int) (e : Nat), (∀ x ∈ l, x ≤ 0) →
    scanFrom ms bst { start := e, ext := 0, cur := none, res := [] } e l =
      { start := e + l.length, ext := 0, cur := none, res := [] } := by
  intro l
  induction l with
  | nil => intro e _; rfl
  | cons s ss ih =>
    intro e h
    have hs : s ≤ 0 := h s (by simp)
    have hbr : (0 : Int) + s ≤ max 0 ((0 : Int) - bst) := by omega
    have hstep : scanStep ms bst { start := e, ext := 0, cur := none, res := [] } e s =
        { start := e + 1, ext := 0, cur := none, res := [] } := by
      rw [Scan.scanStep_break (by exact hbr)]; rfl
    show scanFrom ms bst (scanStep ms bst _ e s) (e + 1) ss = _
    rw [hstep, ih (e + 1) (fun x hx => h x (by simp [hx]))]
    have : e + 1 + ss.length = e + (s :: ss).length := by simp; omega
    rw [this]

/-- the run being followed: scan state and `firstRunGo` move in lockstep -/
theorem scanFrom_run (ms bst : Int) (i0 : Nat) : ∀ (ss : List Int) (k : Nat) (acc best : Int) (arg : Nat)
    (B : Int) (A : Nat), firstRunGo bst k acc best arg ss = (B, A) → ms ≤ B →
    ((scanFrom ms bst { start := i0, ext := acc, cur := some ⟨i0, arg, best⟩, res := [] } k ss).flush ms).res.head?
      = some ⟨i0, A, B⟩ := by
  intro ss
  induction ss with
  | nil =>
    intro k acc best arg B A h hB
    simp only [firstRunGo, Prod.mk.injEq] at h
    obtain ⟨rfl, rfl⟩ := h
    simp [scanFrom, ScanSt.flush, hB]
  | cons s ss ih =>
    intro k acc best arg B A h hB
    show ((scanFrom ms bst (scanStep ms bst _ k s) (k + 1) ss).flush ms).res.head? = _
    unfold firstRunGo at h
    simp only at h
    by_cases h1 : acc + s ≤ max 0 (best - bst)
    · rw [if_pos h1] at h
      simp only [Prod.mk.injEq] at h
      obtain ⟨rfl, rfl⟩ := h
      apply flush_res_head
      apply scanFrom_res_head
      rw [Scan.scanStep_break (by exact h1)]
      simp [ScanSt.flush, hB]
    · rw [if_neg h1] at h
      by_cases h2 : acc + s > best
      · rw [if_pos h2] at h
        have hstep : scanStep ms bst { start := i0, ext := acc, cur := some ⟨i0, arg, best⟩, res := [] } k s =
            { start := i0, ext := acc + s, cur := some ⟨i0, k + 1, acc + s⟩, res := [] } := by
          rw [Scan.scanStep_accept (by exact h1) (by exact h2)]
        rw [hstep]
        exact ih _ _ _ _ _ _ h hB
      · rw [if_neg h2] at h
        have hstep : scanStep ms bst { start := i0, ext := acc, cur := some ⟨i0, arg, best⟩, res := [] } k s =
            { start := i0, ext := acc + s, cur := some ⟨i0, arg, best⟩, res := [] } := by
          rw [Scan.scanStep_plain (by exact h1) (by exact h2)]
        rw [hstep]
        exact ih _ _ _ _ _ _ h hB

theorem drop_length_takeWhile' (p : Int → Bool) : ∀ l : List Int,
    l.drop (l.takeWhile p).length = l.dropWhile p := by
  intro l
  induction l with
  | nil => rfl
  | cons a t ih =>
    by_cases h : p a
    · simp [h, ih]
    · simp [h]

theorem dropWhile_head_not (p : Int → Bool) : ∀ (l : List Int) (s : Int) (ss : List Int),
    l.dropWhile p = s :: ss → p s = false := by
  intro l
  induction l with
  | nil => intro s ss h; simp at h
  | cons a t ih =>
    intro s ss h
    by_cases hp : p a
    · rw [List.dropWhile_cons, if_pos hp] at h; exact ih s ss h
    · rw [List.dropWhile_cons, if_neg hp] at h
      simp only [List.cons.injEq] at h
      rw [← h.1]; simpa using hp

-- `hm` is part of the factory's contract but is not needed for this property
set_option linter.unusedVariables false in
/-- the scan reports the first qualifying run as its first segment (`0 ≤ bst`, `0 < ms` as the factory requires) -/
theorem scanRanges_first_run (ms bst : Int) (scores : List Int) (hb : 0 ≤ bst) (hm : 0 < ms) (r : Rng)
    (h : firstRun ms bst scores = some r) : (scanRanges ms bst scores).head? = some r := by
  unfold firstRun at h
  simp only at h
  rw [drop_length_takeWhile'] at h
  have hsplit := List.takeWhile_append_dropWhile (p := fun x : Int => decide (x ≤ 0)) (l := scores)
  have hlead : ∀ x ∈ scores.takeWhile (fun x : Int => decide (x ≤ 0)), x ≤ 0 := by
    intro x hx
    have hall := List.all_takeWhile (l := scores) (p := fun x : Int => decide (x ≤ 0))
    have := List.all_eq_true.mp hall x hx
    simpa using this
  cases hd : scores.dropWhile (fun x : Int => decide (x ≤ 0)) with
  | nil => rw [hd] at h; simp at h
  | cons s ss =>
    rw [hd] at h
    simp only at h
    have hs : ¬ s ≤ 0 := by
      have := dropWhile_head_not _ _ _ _ hd
      simpa using this
    generalize hgo : firstRunGo bst ((scores.takeWhile (fun x : Int => decide (x ≤ 0))).length + 1) s s
      ((scores.takeWhile (fun x : Int => decide (x ≤ 0))).length + 1) ss = res at h
    obtain ⟨B, A⟩ := res
    simp only at h
    by_cases hB : ms ≤ B
    · rw [if_pos hB] at h
      have hr : r = ⟨(scores.takeWhile (fun x : Int => decide (x ≤ 0))).length, A, B⟩ :=
        (Option.some.inj h).symm
      subst hr
      unfold scanRanges
      have key : scanFrom ms bst {} 0 scores =
          scanFrom ms bst {} 0 (scores.takeWhile (fun x : Int => decide (x ≤ 0)) ++ s :: ss) := by
        rw [← hd, hsplit]
      rw [key, scanFrom_append]
      have hl := scanFrom_lead ms bst hb _ 0 hlead
      have hinit : ({} : ScanSt) = { start := 0, ext := 0, cur := none, res := [] } := rfl
      rw [hinit, hl]
      simp only [Nat.zero_add]
      show ((scanFrom ms bst (scanStep ms bst _ _ s) _ ss).flush ms).res.head? = _
      have h1 : ¬ ((0 : Int) + s ≤ max 0 ((0 : Int) - bst)) := by omega
      have hstep : scanStep ms bst
          { start := (scores.takeWhile (fun x : Int => decide (x ≤ 0))).length, ext := 0, cur := none, res := [] }
          (scores.takeWhile (fun x : Int => decide (x ≤ 0))).length s =
          { start := (scores.takeWhile (fun x : Int => decide (x ≤ 0))).length, ext := s,
            cur := some ⟨(scores.takeWhile (fun x : Int => decide (x ≤ 0))).length,
              (scores.takeWhile (fun x : Int => decide (x ≤ 0))).length + 1, s⟩, res := [] } := by
        have h2 : (0 : Int) + s > 0 := by omega
        rw [Scan.scanStep_accept (by exact h1) (by exact h2)]
        simp
      rw [hstep]
      exact scanFrom_run ms bst _ ss _ _ _ _ _ _ hgo hB
    · rw [if_neg hB] at h; simp at h

end Coma.Proofs
