/-
  Proofs/Translate_Chain.lean — the chainer commutes with the translation (it reads differences of reference
  coordinates only; the initial ordering key moves by `2 d`).
-/
import Proofs.Translate_Factory
import Proofs.Mirror_Chain
namespace Coma.Proofs.Translate
open Coma Coma.Spec

variable (d : Int)

def tEnds (e : Ends) : Ends := ⟨tPr d e.s, tPr d e.e⟩

theorem endsKey_t (e : Ends) : (tEnds d e).key = e.key + 2 * d := by
  simp only [Ends.key, tEnds, tPr_r, tPr_q, tLbl_pos]; omega

theorem joinScore_t (m : Rat) (v : Int) (a b : Ends) :
    joinScore m v (tEnds d a) (tEnds d b) = joinScore m v a b := by
  have e1 : (tEnds d b).s.r.pos - (tEnds d a).e.r.pos = b.s.r.pos - a.e.r.pos := by
    simp only [tEnds, tPr_r, tLbl_pos]; omega
  have e2 : (tEnds d b).e.r.pos - (tEnds d b).s.r.pos = b.e.r.pos - b.s.r.pos := by
    simp only [tEnds, tPr_r, tLbl_pos]; omega
  have e3 : (tEnds d a).e.r.pos - (tEnds d a).s.r.pos = a.e.r.pos - a.s.r.pos := by
    simp only [tEnds, tPr_r, tLbl_pos]; omega
  have q1 : (tEnds d b).s.q = b.s.q := rfl
  have q2 : (tEnds d b).e.q = b.e.q := rfl
  have q3 : (tEnds d a).s.q = a.s.q := rfl
  have q4 : (tEnds d a).e.q = a.e.q := rfl
  unfold joinScore
  simp only [e1, e2, e3, q1, q2, q3, q4]

theorem ends?_t (s : Seg) : (tSeg d s).ends? = s.ends?.map (tEnds d) := by
  unfold Seg.ends?
  rw [tSeg_pairs]
  cases h : s.pairs with
  | nil => rfl
  | cons p ps =>
    simp only [List.map_cons, Option.map_some, tEnds]
    congr 2
    exact (List.getLast_map (f := tPr d) (l := p :: ps) (by simp)).symm ▸ rfl

def tSE (x : Seg × Ends) : Seg × Ends := (tSeg d x.1, tEnds d x.2)

theorem withEnds?_t (segs : List Seg) :
    withEnds? (segs.map (tSeg d)) = (withEnds? segs).map (List.map (tSE d)) := by
  induction segs with
  | nil => rfl
  | cons s ss ih =>
    simp only [List.map_cons, withEnds?, ih, ends?_t]
    cases s.ends? <;> cases withEnds? ss <;> simp [tSE]

theorem filter_t (p : Seg → Bool) (hp : ∀ s, p (tSeg d s) = p s) (segs : List Seg) :
    (segs.map (tSeg d)).filter p = (segs.filter p).map (tSeg d) := by
  rw [List.filter_map]
  congr 1
  congr 1
  funext s
  exact hp s

theorem chainSegs_t (P : Params) (C : ChainCfg) (segs : List Seg) :
    chainSegs P C (segs.map (tSeg d)) = (chainSegs P C segs).map (List.map (tSeg d)) := by
  unfold chainSegs
  simp only
  rw [filter_t d (fun s => !s.isEmpty) (by simp), filter_t d Seg.isEmpty (by simp), withEnds?_t]
  cases withEnds? (segs.filter fun s => !s.isEmpty) with
  | none => rfl
  | some ne =>
    simp only [Option.map_some]
    rw [isort_map_add (tSE d) (fun x => x.2.key) (fun x => x.2.key) (2 * d) (by intro x; exact endsKey_t d x.2)]
    cases hpre : isort (fun (x : Seg × Ends) => x.2.key) ne with
    | nil => simp
    | cons a as =>
      rw [← hpre]
      have hne : (isort (fun (x : Seg × Ends) => x.2.key) ne).map (tSE d) ≠ [] := by
        rw [hpre]; simp
      have hd := Mirror.dpChain_map (tSE d) (fun (x : Seg × Ends) => ((x.1.score P : Int) : Rat))
        (fun a b => joinScore C.mult C.variant a.2 b.2)
        (fun (x : Seg × Ends) => ((x.1.score P : Int) : Rat))
        (fun a b => joinScore C.mult C.variant a.2 b.2)
        (by intro a; simp [tSE]) (by intro a b; exact joinScore_t d _ _ _ _) (isort (fun (x : Seg × Ends) => x.2.key) ne)
      split
      · rename_i h; exact absurd h hne
      · split
        · rename_i h; rw [hpre] at h; cases h
        · rw [hd]
          simp only [Option.map_some, List.map_append, List.map_filterMap, Option.some.injEq]
          congr 1
          congr 1
          funext i
          simp [List.getElem?_map]
          rfl

end Coma.Proofs.Translate
