/-
  Proofs/Translate_Struct.lean — second instance of the generic pass lemma: segments cut by the factory.
  A left segment `L` that ends on a pair `e`, whose pairs are all `leqAny e` and whose non-empty suffixes all have a
  positive score, is returned unchanged when the right segment is empty — whatever the null comparison says.
-/
import Proofs.Translate_Resolve
import Proofs.Conflict_Shape
namespace Coma.Proofs.Translate
open Coma Coma.Spec Coma.Proofs.Conflict

/-- what the pass needs of a segment used on the LEFT of an empty segment -/
def QL (P : Params) (s : Seg) : Prop :=
  s.items = [] ∨ ∃ e, s.items.getLast? = some (.pair e) ∧ (∀ p ∈ s.pairs, p.leqAny e = true) ∧
    ∀ a, a ≠ [] → a <:+ s.items → 0 < sumScores P a

/-- … and of a segment of the chain (used on the right, then, cut, on the left) -/
def QR (s : Seg) : Prop := PyNodup s.items ∧ (s.items = [] ∨ ∃ c tl, s.items = .pair c :: tl)

theorem QL_suffix {P : Params} {r R : Seg} (hR : QL P R) (h : r.items <:+ R.items) : QL P r := by
  rcases hR with h0 | ⟨e, he, hall, hsuf⟩
  · left; rw [h0] at h; exact List.suffix_nil.1 h
  · by_cases hr : r.items = []
    · exact Or.inl hr
    · right
      refine ⟨e, ?_, ?_, ?_⟩
      · rw [List.getLast?_eq_some_getLast hr, h.getLast hr, ← List.getLast?_eq_some_getLast, he]
      · intro p hp
        exact hall p ((h.sublist.filterMap APos.pair?).subset hp)
      · intro a ha hsa
        exact hsuf a ha (hsa.trans h)

theorem sub_nil (S : Seg) : S.sub [] = S := by
  cases S; simp [Seg.sub]

theorem charsRef_ne_nil (P : Params) : ∀ (xs : List APos) (i : Nat) (c : Int) (p : Pr), APos.pair p ∈ xs →
    charsRef P i c xs ≠ []
  | [], _, _, _, h => by cases h
  | .pair _ :: _, _, _, _, _ => by simp [charsRef]
  | .uref _ :: _, _, _, _, _ => by simp [charsRef]
  | .uqry _ _ :: xs, i, c, p, h => by
    simp only [charsRef]
    rcases List.mem_cons.1 h with h | h
    · cases h
    · exact charsRef_ne_nil P xs _ _ p h

theorem charsQry_ne_nil (P : Params) : ∀ (xs : List APos) (i : Nat) (c : Int) (p : Pr), APos.pair p ∈ xs →
    charsQry P i c xs ≠ []
  | [], _, _, _, h => by cases h
  | .pair _ :: _, _, _, _, _ => by simp [charsQry]
  | .uqry _ _ :: _, _, _, _, _ => by simp [charsQry]
  | .uref _ :: xs, i, c, p, h => by
    simp only [charsQry]
    rcases List.mem_cons.1 h with h | h
    · cases h
    · exact charsQry_ne_nil P xs _ _ p h

theorem startPos_of_last {L : Seg} {e : Pr} (he : L.items.getLast? = some (.pair e)) :
    ∃ c, L.startPos = .ok (.pr c) := by
  obtain ⟨hne, hp, _⟩ := last_pair he
  unfold Seg.startPos
  rw [if_neg (by simpa using hne)]
  cases hps : L.pairs with
  | nil => rw [hps] at hp; cases hp
  | cons c _ => exact ⟨c, rfl⟩

theorem overlap_empty_right {L R : Seg} {e : Pr} (he : L.items.getLast? = some (.pair e)) (hR : R.items = []) :
    L.endOverlapsWithStartOf R = .ok (e.leqAny nullPr) := by
  obtain ⟨hne, _, hend⟩ := last_pair he
  obtain ⟨c, hc⟩ := startPos_of_last he
  unfold Seg.endOverlapsWithStartOf
  rw [if_neg (by simpa using hne), startPos_empty hR, endPos_empty hR, hc, hend]
  rfl

/-- the slice of such a left segment from the null pair up to its last pair: only a leading part is dropped -/
theorem slice_null_left {L : Seg} {e : Pr} (he : L.items.getLast? = some (.pair e))
    (hall : ∀ p ∈ L.pairs, p.leqAny e = true) :
    L.slice .null (.pr e) = .ok ⟨L.peak, L.items.dropWhile (fun p => p.lessOnBoth nullPr)⟩ := by
  unfold Seg.slice
  have hsuf := List.dropWhile_suffix (l := L.items) (fun p : APos => p.lessOnBoth SP.null.toPr)
  show (do
    let c ← trimEnd (SP.pr e).toPr ((L.items.dropWhile (fun p : APos => p.lessOnBoth SP.null.toPr)).takeWhile
      (fun p : APos => !p.isPair || p.leqAny (SP.pr e).toPr))
    pure (⟨L.peak, c⟩ : Seg)) = _
  generalize hA : L.items.dropWhile (fun p => p.lessOnBoth SP.null.toPr) = A at hsuf
  have htw : A.takeWhile (fun p => !p.isPair || p.leqAny (SP.pr e).toPr) = A := by
    apply takeWhile_eq_self
    intro x hx
    cases x with
    | pair p =>
      have : p ∈ L.pairs := mem_pairs.mpr (hsuf.mem hx)
      simp [APos.isPair, APos.leqAny, SP.toPr, hall p this]
    | uref _ => simp [APos.isPair]
    | uqry _ _ => simp [APos.isPair]
  rw [htw]
  have htr : trimEnd (SP.pr e).toPr A = .ok A := by
    by_cases hA0 : A = []
    · rw [hA0]; rfl
    · apply trimEnd_last_pair (p := e)
      rw [List.getLast?_eq_some_getLast hA0, hsuf.getLast hA0, ← List.getLast?_eq_some_getLast, he]
  rw [htr]
  have : SP.null.toPr = nullPr := rfl
  rw [this] at hA
  rw [← hA]
  rfl

/-- a factory-like left segment in front of an empty segment is returned unchanged -/
theorem resolvePairB_empty_right (P : Params) {L R : Seg} (hL : QL P L) (hR : R.items = []) :
    ∃ b, resolvePairB P L R = .ok (L, R, b) := by
  rcases hL with h0 | ⟨e, he, hall, hsuf⟩
  · refine ⟨.emptyLeft, ?_⟩
    unfold resolvePairB
    simp only [bind, Except.bind, pure, Except.pure]
    rw [if_pos (by simp [h0])]
  · obtain ⟨hne, _, hend⟩ := last_pair he
    have hov := overlap_empty_right he hR
    unfold resolvePairB
    simp only [bind, Except.bind, pure, Except.pure]
    rw [if_neg (by simpa using hne), hov]
    cases hv : e.leqAny nullPr with
    | false => exact ⟨.noOverlap, rfl⟩
    | true =>
      simp only [Bool.not_true, Bool.false_eq_true, if_false]
      rw [startPos_empty hR, hend]
      simp only
      rw [slice_null_left he hall, slice_empty hR]
      simp only
      generalize hA : L.items.dropWhile (fun p => p.lessOnBoth nullPr) = A
      have hsA : A <:+ L.items := hA ▸ List.dropWhile_suffix _
      generalize hch : (if L.peak > R.peak then (charsRef P 0 0 A, charsRef P 0 0 ([] : List APos))
        else (charsQry P 0 0 A, charsQry P 0 0 ([] : List APos))) = ch
      by_cases hA0 : A = []
      · have hch' : ch = ([], []) := by
          rw [← hch, hA0]; split <;> rfl
        subst hch'
        refine ⟨.index0, ?_⟩
        have : mergeIndex [] [] = 0 := by decide
        simp [this]
        rw [hA0, sub_nil]
      · have hlast : A.getLast? = some (.pair e) := by
          rw [List.getLast?_eq_some_getLast hA0, hsA.getLast hA0, ← List.getLast?_eq_some_getLast, he]
        have hmem : APos.pair e ∈ A := List.mem_of_getLast? hlast
        have hpos : 0 < sumScores P A := hsuf A hA0 hsA
        have h1 := charsRef_ne_nil P A 0 0 e hmem
        have h2 := charsQry_ne_nil P A 0 0 e hmem
        have hch' : ch.1 ≠ [] ∧ ch.2 = [] := by
          rw [← hch]; split
          · exact ⟨h1, rfl⟩
          · exact ⟨h2, rfl⟩
        obtain ⟨lch, rch⟩ := ch
        obtain ⟨hl, hr⟩ := hch'
        simp only at hl hr
        subst hr
        refine ⟨.dropRight, ?_⟩
        have hsc : (⟨L.peak, A⟩ : Seg).score P > (⟨R.peak, []⟩ : Seg).score P := by
          show sumScores P [] < sumScores P A
          exact hpos
        have hlen : ¬ lch.length = ([] : List LabelChar).length := fun h => hl (List.length_eq_zero_iff.1 h)
        simp only
        rw [if_neg hlen, if_pos hsc, sub_nil]

theorem resolvePair_empty_right (P : Params) {L R : Seg} (hL : QL P L) (hR : R.items = []) :
    resolvePair P L R = .ok (L, R) := by
  obtain ⟨b, hb⟩ := resolvePairB_empty_right P hL hR
  unfold resolvePair
  rw [hb]
  rfl


/-- what the pass hands on is a suffix of the right segment -/
theorem resolve_suffix_right {P : Params} {L R l r : Seg} {b : Branch} (h : resolvePairB P L R = .ok (l, r, b))
    (hR : QR R) : r.items <:+ R.items := by
  rcases resolvePairB_cases h with ⟨_, _, rfl, _⟩ | ⟨_, _, _, rfl, _⟩ | ⟨_, _, cs, ce, Lc, Rc, hcs, _, _, hRc, hT⟩
  · exact List.suffix_refl _
  · exact List.suffix_refl _
  · rcases hR.2 with h0 | ⟨c, tl, hc⟩
    · have : r.items = [] := by
        rcases hT with ⟨_, _, rfl⟩ | ⟨_, _, rfl⟩ | ⟨_, li, ri, _, rfl⟩
        · exact h0
        · show R.items.filter _ = []; rw [h0]; rfl
        · show R.items.filter _ = []; rw [h0]; rfl
      rw [this]; exact List.nil_suffix
    · obtain ⟨_, _, hsp⟩ := first_pair hc
      rw [hsp] at hcs
      injection hcs with hcs
      subst hcs
      obtain ⟨Rc', t, h1, h2, _⟩ := slice_right hc ce
      rw [h1] at hRc
      injection hRc with hRc
      subst hRc
      have hRs : R.items = Rc'.items ++ (t ++ R.items.dropWhile (fun p => !p.isPair || p.leqAny ce.toPr)) := by
        rw [← List.append_assoc, ← h2, List.takeWhile_append_dropWhile]
      rcases hT with ⟨_, _, rfl⟩ | ⟨_, _, rfl⟩ | ⟨_, li, ri, _, rfl⟩
      · exact List.suffix_refl _
      · rw [sub_prefix hR.1 hRs]; exact ⟨Rc'.items, hRs.symm⟩
      · have hRs' : R.items = Rc'.items.take ri ++ (Rc'.items.drop ri ++
            (t ++ R.items.dropWhile (fun p => !p.isPair || p.leqAny ce.toPr))) := by
          rw [← List.append_assoc, List.take_append_drop]; exact hRs
        rw [sub_prefix hR.1 hRs']; exact ⟨Rc'.items.take ri, hRs'.symm⟩

variable (d : Int)

theorem QL_tSeg {P : Params} {L : Seg} (hL : QL P L) : QL P (tSeg d L) := by
  rcases hL with h0 | ⟨e, he, hall, hsuf⟩
  · left; simp [h0]
  · right
    refine ⟨tPr d e, ?_, ?_, ?_⟩
    · simp only [tSeg_items, List.getLast?_map, he]; rfl
    · intro p hp
      rw [tSeg_pairs] at hp
      obtain ⟨p', hp', rfl⟩ := List.mem_map.1 hp
      rw [PrleqAny_t]; exact hall p' hp'
    · intro a ha hsa
      obtain ⟨t, ht⟩ := hsa
      simp only [tSeg_items] at ht
      obtain ⟨l1, l2, hl, _, h2⟩ := List.map_eq_append_iff.1 ht.symm
      subst h2
      rw [sumScores_t]
      exact hsuf l2 (by intro h; apply ha; simp [h]) ⟨l1, hl.symm⟩

/-- one step commutes on factory-like segments, with no condition on the coordinates -/
theorem resolvePair_t_struct (P : Params) (L R : Seg) (hL : QL P L) :
    resolvePair P (tSeg d L) (tSeg d R) = (resolvePair P L R).map (tPair d) := by
  by_cases hR : R.items = []
  · rw [resolvePair_empty_right P hL hR, resolvePair_empty_right P (QL_tSeg d hL) (by simp [hR])]
    rfl
  · exact resolvePair_t d P L R (fun h => absurd h hR)

theorem resolveConflicts_t_struct (P : Params) (C : ChainCfg) (segs : List Seg)
    (hz : ∀ s ∈ segs, QL P s ∧ QR s) :
    resolveConflicts P C (segs.map (tSeg d)) = (resolveConflicts P C segs).map (List.map (tSeg d)) := by
  apply resolveConflicts_t_gen d P C (QL P) (fun s => QL P s ∧ QR s) _ _ segs (fun s hs => ⟨(hz s hs).1, hz s hs⟩)
  · intro L R hL _; exact resolvePair_t_struct d P L R hL
  · intro L R l r _ hR h
    obtain ⟨b, hB⟩ := resolvePair_ok_B h
    exact QL_suffix hR.1 (resolve_suffix_right hB hR.2)

end Coma.Proofs.Translate
