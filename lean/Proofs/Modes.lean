import Props.Defs
namespace Coma.Proofs
open Coma Coma.Spec

theorem mode_files (cfg : Cfg) (refs : List OMap) (t : SeedTable) (qs : List OMap) (it : Int)
    (oa oj os : Output)
    (ha : execute cfg .all refs t qs it = .ok oa) (hj : execute cfg .joined refs t qs it = .ok oj)
    (hs : execute cfg .separate refs t qs it = .ok os) :
    oa.main = oj.main ∧
    (∃ f1 f2 s1, oa.extra = [(1, f1), (2, f2)] ∧ os.extra = [(1, s1)] ∧ f1 = os.main ∧ f2 = s1) := by
  sorry

theorem aligned_rest_flags (cfg : Cfg) (refs : List OMap) (t : SeedTable) (qs : List OMap) (it : Int)
    (os : Output) (hs : execute cfg .separate refs t qs it = .ok os) :
    (∀ r ∈ os.main, r.alignedRest = false) ∧ (∀ f ∈ os.extra, ∀ r ∈ f.2, r.alignedRest = true) := by
  sorry

theorem resolveRows_partition (P : Params) (d : Int) (rows joined separate : List Row)
    (h : resolveRows P d rows = .ok (joined, separate))
    (h2 : ∀ q r, (rows.filter (fun x => x.queryId = q ∧ x.referenceId = r)).length ≤ 2) :
    separate.length + 2 * joined.length = rows.length ∧ (∀ x ∈ separate, x ∈ rows) := by
  sorry

theorem resolveRows_eligibility (P : Params) (d : Int) (rows joined separate : List Row)
    (h : resolveRows P d rows = .ok (joined, separate)) :
    ∀ j ∈ joined, ∃ x ∈ rows, ∃ y ∈ rows,
      x.queryId = y.queryId ∧ x.referenceId = y.referenceId ∧ x.rev = y.rev ∧
      iabs (max x.rStart y.rStart - min x.rEnd y.rEnd) ≤ d ∧
      joinRows P x y = .ok (some j) := by
  sorry

theorem joinRows_subset (P : Params) (a b j : Row) (h : joinRows P a b = .ok (some j)) :
    (∀ p ∈ j.pairs, p ∈ a.pairs ∨ p ∈ b.pairs) ∧
    j.queryId = a.queryId ∧ j.referenceId = a.referenceId ∧ j.rev = a.rev ∧
    j.queryLength = a.queryLength ∧ j.referenceLength = a.referenceLength ∧
    j.pairs ≠ [] ∧ ValidMatching j.rev (sitePairs j.pairs) := by
  sorry

theorem joinRows_union (P : Params) (a b : Row) (sa sb : Seg) (pa pb : Pr)
    (ha : a.segments = [sa]) (hb : b.segments = [sb])
    (hpa : sa.pairs.head? = some pa) (hpb : sb.pairs.head? = some pb) (hlt : pa.r.pos < pb.r.pos)
    (hLa : LeftOK sa) (hRb : RightOK sb) (hS : StrictCoords sa sb) (hsep : Separated sa sb)
    (hv : (Row.create P [sa, sb] a.queryId a.referenceId a.queryLength a.referenceLength a.rev).isOneToOneAndCollinear = true) :
    ∃ j, joinRows P a b = .ok (some j) ∧ j.pairs = sa.pairs ++ sb.pairs := by
  sorry

theorem join_drops_segments_counterexample :
    ∃ j, joinRows ⟨1000, 1, -250, 1500, 1000, 1200⟩
      { (default : Row) with segments := [⟨0, [.pair ⟨⟨1, 10⟩, ⟨1, 10⟩, 0, 0⟩, .pair ⟨⟨2, 20⟩, ⟨2, 20⟩, 0, 0⟩]⟩,
                                           ⟨0, [.pair ⟨⟨3, 30⟩, ⟨3, 30⟩, 0, 0⟩, .pair ⟨⟨4, 40⟩, ⟨4, 40⟩, 0, 0⟩]⟩] }
      { (default : Row) with segments := [⟨0, [.pair ⟨⟨6, 60⟩, ⟨6, 60⟩, 0, 0⟩, .pair ⟨⟨7, 70⟩, ⟨7, 70⟩, 0, 0⟩]⟩] } = .ok (some j) ∧
      sitePairs j.pairs = [(1, 1), (2, 2), (6, 6), (7, 7)] := by
  sorry

theorem unchecked_join_counterexample :
    ∃ j, joinRowsUnchecked ⟨1000, 1, -250, 1500, 1000, 1200⟩
      { (default : Row) with segments := [⟨0, [.pair ⟨⟨1, 10⟩, ⟨2, 20⟩, 0, 0⟩, .pair ⟨⟨2, 20⟩, ⟨3, 30⟩, 0, 0⟩, .pair ⟨⟨3, 30⟩, ⟨4, 40⟩, 900, 0⟩]⟩] }
      { (default : Row) with segments := [⟨50, [.pair ⟨⟨6, 60⟩, ⟨1, 10⟩, 900, 0⟩, .pair ⟨⟨7, 70⟩, ⟨2, 20⟩, 900, 0⟩, .pair ⟨⟨8, 80⟩, ⟨3, 30⟩, 0, 0⟩]⟩] } = .ok j ∧
      sitePairs j.pairs = [(1, 2), (2, 3), (8, 3)] ∧
      j.isOneToOneAndCollinear = false := by
  sorry

end Coma.Proofs
