import Props.Defs
import Proofs.SortLemmas
import Proofs.PairingOrder
import Proofs.ConflictAll

/-!
  Proofs/Modes.lean — proofs for C08 (output modes, `resolveRows`, `joinRows`).

  Helper lemmas live in `Coma.Proofs.Modes`; the eight theorems used by Props/C08.lean live in
  `Coma.Proofs`.

  FINDING: `joinRows_union` is FALSE as stated (see `Modes.joinRows_union_counterexample`): an
  unpaired item of `sa` lying between two of its pairs need not be `lessOnBoth` the first pair of
  `sb`, so the conflict region of `sa` can be non-empty and the `dropLeft` branch removes a suffix
  of `sa` that contains pairs.  Proved instead: `Modes.joinRows_union_of_unpaired_before`, with the
  additional hypothesis `∀ x ∈ sa.items, x.isPair = false → x.lessOnBoth pb = true`.
-/
namespace Coma.Proofs.Modes
open Coma Coma.Spec Coma.Proofs.Conflict

/-! ### closed-term witnesses -/

theorem ex_of_opt {α} {X : Except Err (Option α)} {P : α → Prop} [DecidablePred P]
    (h : ((X.toOption.bind id).map (fun j => decide (P j))) = some true) :
    ∃ j, X = .ok (some j) ∧ P j := by
  cases X with
  | error e => cases h
  | ok o =>
    cases o with
    | none => cases h
    | some j =>
      refine ⟨j, rfl, ?_⟩
      simpa [Except.toOption] using h

theorem ex_of_ok {α} {X : Except Err α} {P : α → Prop} [DecidablePred P]
    (h : (X.toOption.map (fun j => decide (P j))) = some true) :
    ∃ j, X = .ok j ∧ P j := by
  cases X with
  | error e => cases h
  | ok j =>
      refine ⟨j, rfl, ?_⟩
      simpa [Except.toOption] using h

/-! ### `joinRows` -/

theorem joinRows_ok {P : Params} {a b j : Row} (h : joinRows P a b = .ok (some j)) :
    ∃ pa pb sa sb ta tb ua ub l r, a.pairs = pa :: ta ∧ b.pairs = pb :: tb ∧
      a.segments = sa :: ua ∧ b.segments = sb :: ub ∧
      ((pa.r.pos < pb.r.pos ∧ resolvePair P sa sb = .ok (l, r)) ∨
       (¬ pa.r.pos < pb.r.pos ∧ resolvePair P sb sa = .ok (l, r))) ∧
      j = Row.create P [l, r] a.queryId a.referenceId a.queryLength a.referenceLength a.rev ∧
      j.isOneToOneAndCollinear = true := by
  unfold joinRows at h
  split at h
  · rename_i pa ta pb tb sa ua sb ub h1 h2 h3 h4
    simp only [bind, Except.bind, pure, Except.pure] at h
    by_cases hlt : pa.r.pos < pb.r.pos
    · rw [if_pos hlt] at h
      cases hv : resolvePair P sa sb with
      | error e => rw [hv] at h; cases h
      | ok v =>
        obtain ⟨l, r⟩ := v
        rw [hv] at h
        simp only [Except.ok.injEq] at h
        split at h
        · rename_i hc
          injection h with h
          subst h
          exact ⟨pa, pb, sa, sb, ta, tb, ua, ub, l, r, h1, h2, h3, h4, Or.inl ⟨hlt, hv⟩, rfl, hc⟩
        · cases h
    · rw [if_neg hlt] at h
      cases hv : resolvePair P sb sa with
      | error e => rw [hv] at h; cases h
      | ok v =>
        obtain ⟨l, r⟩ := v
        rw [hv] at h
        simp only [Except.ok.injEq] at h
        split at h
        · rename_i hc
          injection h with h
          subst h
          exact ⟨pa, pb, sa, sb, ta, tb, ua, ub, l, r, h1, h2, h3, h4, Or.inr ⟨hlt, hv⟩, rfl, hc⟩
        · cases h
  · cases h

theorem strictlyAscending_iff : ∀ (xs : List Int), strictlyAscending xs = true ↔ xs.Pairwise (· < ·)
  | [] => by simp [strictlyAscending]
  | [a] => by simp [strictlyAscending]
  | a :: b :: t => by
    have ih := strictlyAscending_iff (b :: t)
    simp only [strictlyAscending, Bool.and_eq_true, decide_eq_true_eq, ih]
    constructor
    · rintro ⟨hab, hp⟩
      refine List.Pairwise.cons ?_ hp
      intro x hx
      rcases List.mem_cons.mp hx with rfl | hx
      · exact hab
      · have := List.rel_of_pairwise_cons hp hx
        omega
    · intro hp
      exact ⟨List.rel_of_pairwise_cons hp (List.mem_cons_self ..), (List.pairwise_cons.mp hp).2⟩

theorem valid_of_check {r : Row} (h : r.isOneToOneAndCollinear = true) :
    r.pairs ≠ [] ∧ ValidMatching r.rev (sitePairs r.pairs) := by
  unfold Row.isOneToOneAndCollinear at h
  simp only [Bool.and_eq_true, Bool.not_eq_true', strictlyAscending_iff] at h
  obtain ⟨⟨h1, h2⟩, h3⟩ := h
  refine ⟨fun h0 => by simp [h0] at h1, ?_⟩
  unfold ValidMatching sitePairs
  rw [List.pairwise_map] at h2 h3 ⊢
  refine (h2.and h3).imp ?_
  intro a b ⟨hab, hq⟩
  refine ⟨hab, ?_⟩
  cases hr : r.rev <;> simp [hr] at hq ⊢ <;> omega

theorem seg_pairs_subset {l L : Seg} (h : l.items.Sublist L.items) : ∀ p ∈ l.pairs, p ∈ L.pairs :=
  fun _ hp => (h.filterMap _).subset hp

theorem head_pairs_subset {a : Row} {sa : Seg} {ua : List Seg} (h : a.segments = sa :: ua) :
    ∀ p ∈ sa.pairs, p ∈ a.pairs := by
  intro p hp
  unfold Row.pairs
  rw [h, List.flatMap_cons]
  exact List.mem_append_left _ hp

/-! ### `resolveGroups` / `resolveRows` -/

theorem resolveGroups_cons_ok {P : Params} {d : Int} {g : List Row} {gs : List (List Row)} {J S : List Row}
    (h : resolveGroups P d (g :: gs) = .ok (J, S)) :
    ∃ j s, resolveGroups P d gs = .ok (j, s) ∧
      ((g = [] ∧ J = j ∧ S = s) ∨ (∃ x, g = [x] ∧ J = j ∧ S = x :: s) ∨
       (∃ x y rest, g = x :: y :: rest ∧
          ((∃ r, checkOverlap x y d = true ∧ joinRows P x y = .ok (some r) ∧ J = r :: j ∧ S = s) ∨
           (J = j ∧ S = x :: y :: rest ++ s)))) := by
  simp only [resolveGroups, bind, Except.bind, pure, Except.pure] at h
  cases hr : resolveGroups P d gs with
  | error e => rw [hr] at h; cases h
  | ok v =>
    obtain ⟨j, s⟩ := v
    rw [hr] at h
    refine ⟨j, s, rfl, ?_⟩
    match g, h with
    | [], h =>
      simp only [Except.ok.injEq, Prod.mk.injEq] at h
      exact Or.inl ⟨rfl, h.1.symm, h.2.symm⟩
    | [x], h =>
      simp only [Except.ok.injEq, Prod.mk.injEq] at h
      exact Or.inr (Or.inl ⟨x, rfl, h.1.symm, h.2.symm⟩)
    | x :: y :: rest, h =>
      refine Or.inr (Or.inr ⟨x, y, rest, rfl, ?_⟩)
      simp only at h
      by_cases hc : checkOverlap x y d = true
      · rw [if_pos hc] at h
        cases hj : joinRows P x y with
        | error e => rw [hj] at h; cases h
        | ok o =>
          rw [hj] at h
          cases o with
          | none =>
            simp only [Except.ok.injEq, Prod.mk.injEq] at h
            exact Or.inr ⟨h.1.symm, h.2.symm⟩
          | some r =>
            simp only [Except.ok.injEq, Prod.mk.injEq] at h
            exact Or.inl ⟨r, hc, rfl, h.1.symm, h.2.symm⟩
      · rw [if_neg hc] at h
        simp only [Except.ok.injEq, Prod.mk.injEq] at h
        exact Or.inr ⟨h.1.symm, h.2.symm⟩

theorem resolveGroups_joined {P : Params} {d : Int} : ∀ {gs : List (List Row)} {J S : List Row},
    resolveGroups P d gs = .ok (J, S) →
    ∀ r ∈ J, ∃ g ∈ gs, ∃ x y rest, g = x :: y :: rest ∧ checkOverlap x y d = true ∧
      joinRows P x y = .ok (some r)
  | [], J, S, h => by
    simp only [resolveGroups, Except.ok.injEq, Prod.mk.injEq] at h
    intro r hr; rw [← h.1] at hr; cases hr
  | g :: gs, J, S, h => by
    obtain ⟨j, s, hr, hc⟩ := resolveGroups_cons_ok h
    have ih := resolveGroups_joined hr
    have lift : ∀ r ∈ j, ∃ g' ∈ g :: gs, ∃ x y rest, g' = x :: y :: rest ∧ checkOverlap x y d = true ∧
        joinRows P x y = .ok (some r) := by
      intro r hr
      obtain ⟨g', hg', rest⟩ := ih r hr
      exact ⟨g', List.mem_cons_of_mem _ hg', rest⟩
    rcases hc with ⟨_, rfl, _⟩ | ⟨x, _, rfl, _⟩ | ⟨x, y, rest, hg, ⟨r, hov, hjn, rfl, _⟩ | ⟨rfl, _⟩⟩
    · exact lift
    · exact lift
    · intro r' hr'
      rcases List.mem_cons.mp hr' with rfl | hr'
      · exact ⟨g, List.mem_cons_self, x, y, rest, hg, hov, hjn⟩
      · exact lift r' hr'
    · exact lift

theorem resolveGroups_count {P : Params} {d : Int} : ∀ {gs : List (List Row)} {J S : List Row},
    resolveGroups P d gs = .ok (J, S) → (∀ g ∈ gs, g.length ≤ 2) →
    S.length + 2 * J.length = (gs.map List.length).sum ∧ ∀ x ∈ S, ∃ g ∈ gs, x ∈ g
  | [], J, S, h, _ => by
    simp only [resolveGroups, Except.ok.injEq, Prod.mk.injEq] at h
    rw [← h.1, ← h.2]; simp
  | g :: gs, J, S, h, h2 => by
    obtain ⟨j, s, hr, hc⟩ := resolveGroups_cons_ok h
    obtain ⟨ih1, ih2⟩ := resolveGroups_count hr (fun g' hg' => h2 g' (List.mem_cons_of_mem _ hg'))
    have lift : ∀ x ∈ s, ∃ g' ∈ g :: gs, x ∈ g' := by
      intro x hx
      obtain ⟨g', hg', hxg⟩ := ih2 x hx
      exact ⟨g', List.mem_cons_of_mem _ hg', hxg⟩
    have hlen := h2 g List.mem_cons_self
    rcases hc with ⟨rfl, rfl, rfl⟩ | ⟨x, rfl, rfl, rfl⟩ | ⟨x, y, rest, rfl, ⟨r, hov, hjn, rfl, rfl⟩ | ⟨rfl, rfl⟩⟩
    · refine ⟨by simpa using ih1, lift⟩
    · refine ⟨by simp only [List.map_cons, List.sum_cons, List.length_cons, List.length_nil]; omega, ?_⟩
      intro z hz
      rcases List.mem_cons.mp hz with rfl | hz
      · exact ⟨[z], List.mem_cons_self, List.mem_cons_self⟩
      · exact lift z hz
    · have : rest = [] := by
        cases rest with
        | nil => rfl
        | cons _ _ => simp at hlen
      subst this
      refine ⟨by simp only [List.map_cons, List.sum_cons, List.length_cons, List.length_nil]; omega, lift⟩
    · refine ⟨by simp only [List.map_cons, List.sum_cons, List.length_cons, List.length_append]; omega, ?_⟩
      intro z hz
      rcases List.mem_append.mp hz with hz | hz
      · exact ⟨_, List.mem_cons_self, hz⟩
      · exact lift z hz


/-- the list of groups `resolveRows` iterates over -/
def groupsOf (rows : List Row) : List (List Row) :=
  (groupAdj (fun r => r.referenceId) (isort (fun r => r.referenceId) rows)).flatMap
    fun g => groupAdj (fun r => r.queryId) (isort (fun r => r.queryId) g)

theorem resolveRows_eq (P : Params) (d : Int) (rows : List Row) :
    resolveRows P d rows = resolveGroups P d (groupsOf rows) := rfl

theorem sum_length_regroup (k : Row → Int) : ∀ (GS : List (List Row)),
    ((GS.flatMap fun g => groupAdj k (isort k g)).map List.length).sum = (GS.map List.length).sum
  | [] => rfl
  | g :: GS => by
    rw [List.flatMap_cons, List.map_append, List.sum_append, sum_length_regroup k GS, List.map_cons,
      List.sum_cons, ← List.length_flatten, groupAdj_flatten, isort_length]

theorem groupsOf_sum_length (rows : List Row) : ((groupsOf rows).map List.length).sum = rows.length := by
  unfold groupsOf
  rw [sum_length_regroup, ← List.length_flatten, groupAdj_flatten, isort_length]

theorem sorted' {α} (key : α → Int) (l : List α) :
    (isort key l).Pairwise (fun a b => key a ≤ key b) := by
  have := isort_sorted key l
  rwa [List.pairwise_map] at this

/-- every group is a full (reference, query) class of the input -/
theorem groupsOf_class {rows g : List Row} (hg : g ∈ groupsOf rows) :
    ∃ q r, g = rows.filter (fun x => x.queryId = q ∧ x.referenceId = r) := by
  unfold groupsOf at hg
  obtain ⟨G, hG, hg⟩ := List.mem_flatMap.mp hg
  obtain ⟨y, _, hGy⟩ := (PO.mem_groupAdj_sorted _ (sorted' _ _) G).mp hG
  obtain ⟨x, _, hgx⟩ := (PO.mem_groupAdj_sorted _ (sorted' _ _) g).mp hg
  rw [PO.filter_isort] at hGy hgx
  refine ⟨x.queryId, y.referenceId, ?_⟩
  rw [hgx, hGy, List.filter_filter]
  apply List.filter_congr
  intro a _
  simp

theorem groupsOf_mem {rows g : List Row} (hg : g ∈ groupsOf rows) : ∀ x ∈ g, x ∈ rows := by
  obtain ⟨q, r, rfl⟩ := groupsOf_class hg
  intro x hx
  exact (List.mem_filter.mp hx).1

theorem groupsOf_qid {rows g : List Row} (hg : g ∈ groupsOf rows) :
    ∀ x ∈ g, ∀ y ∈ g, x.queryId = y.queryId := by
  obtain ⟨q, r, rfl⟩ := groupsOf_class hg
  intro x hx y hy
  have h1 := (List.mem_filter.mp hx).2
  have h2 := (List.mem_filter.mp hy).2
  simp only [decide_eq_true_eq] at h1 h2
  rw [h1.1, h2.1]

/-! ### first / second pass flags -/

/-! ### `List.mapM` in `Except` -/

theorem mapM_ok_mem {α β} (f : α → Except Err β) : ∀ (l : List α) (rs : List β),
    l.mapM f = .ok rs → ∀ r ∈ rs, ∃ x ∈ l, f x = .ok r
  | [], rs, h => by
    simp only [List.mapM_nil, pure, Except.pure, Except.ok.injEq] at h
    intro r hr; rw [← h] at hr; cases hr
  | a :: l, rs, h => by
    rw [List.mapM_cons] at h
    simp only [bind, Except.bind, pure, Except.pure] at h
    cases ha : f a with
    | error e => rw [ha] at h; cases h
    | ok b =>
      rw [ha] at h
      cases hl : l.mapM f with
      | error e => rw [hl] at h; cases h
      | ok bs =>
        rw [hl] at h
        simp only [Except.ok.injEq] at h
        subst h
        intro r hr
        rcases List.mem_cons.mp hr with rfl | hr
        · exact ⟨a, List.mem_cons_self, ha⟩
        · obtain ⟨x, hx, hfx⟩ := mapM_ok_mem f l bs hl r hr
          exact ⟨x, List.mem_cons_of_mem _ hx, hfx⟩

theorem alignerAlign_flag {P : Params} {C : ChainCfg} {ref qry : OMap} {peaks : List Int} {rev : Bool} {it : Int}
    {row : Row} (h : alignerAlign P C ref qry peaks rev it = .ok row) : row.alignedRest = false := by
  unfold alignerAlign at h
  simp only [bind, Except.bind, pure, Except.pure] at h
  cases h1 : segmentsOfPeaks P ref qry rev it peaks with
  | error e => rw [h1] at h; cases h
  | ok segs =>
    rw [h1] at h
    simp only at h
    cases h2 : resolveConflicts P C segs with
    | error e => rw [h2] at h; cases h
    | ok res =>
      rw [h2] at h
      simp only [Except.ok.injEq] at h
      rw [← h]; rfl

theorem bestRow_mem {rows : List Row} {r : Row} (h : bestRow rows = some r) : r ∈ rows := by
  unfold bestRow isortDesc at h
  exact (mem_isort _ _ _).mp (List.mem_of_head? h)

theorem perQuery_flag {cfg : Cfg} {refs : List OMap} {seeds : List Seed} {q : OMap} {it : Int} {row : Row}
    (h : perQuery cfg refs seeds q it = .ok (some row)) : row.alignedRest = false := by
  unfold perQuery at h
  split at h
  · cases h
  · simp only [bind, Except.bind, pure, Except.pure] at h
    split at h
    · cases h
    · rename_i rows hrows
      simp only [Except.ok.injEq] at h
      obtain ⟨s, _, hs⟩ := mapM_ok_mem _ _ _ hrows row (bestRow_mem h)
      split at hs
      · cases hs
      · exact alignerAlign_flag hs

theorem executeSingle_flag {cfg : Cfg} {refs : List OMap} {t : SeedTable} {qs : List OMap} {it : Int}
    {rows : List Row} (h : executeSingle cfg refs t qs it = .ok rows) : ∀ r ∈ rows, r.alignedRest = false := by
  unfold executeSingle at h
  simp only [bind, Except.bind, pure, Except.pure] at h
  split at h
  · cases h
  · rename_i rs hrs
    simp only [Except.ok.injEq] at h
    subst h
    intro r hr
    obtain ⟨o, ho, hor⟩ := List.mem_filterMap.mp hr
    cases o with
    | none => cases hor
    | some row =>
      simp only at hor
      split at hor
      · cases hor
      · injection hor with hor
        subst hor
        obtain ⟨q, _, hq⟩ := mapM_ok_mem _ _ _ hrs _ ho
        exact perQuery_flag hq

theorem secondPass_flag {cfg : Cfg} {refs : List OMap} {t : SeedTable} {qs : List OMap} {first : List Row} {it : Int}
    {rows : List Row} (h : secondPass cfg refs t qs first it = .ok rows) : ∀ r ∈ rows, r.alignedRest = true := by
  unfold secondPass at h
  simp only [bind, Except.bind, pure, Except.pure] at h
  split at h
  · cases h
  · split at h
    · cases h
    · simp only [Except.ok.injEq] at h
      subst h
      intro r hr
      obtain ⟨r', _, rfl⟩ := List.mem_map.mp hr
      rfl

theorem filterBest_mem {rows : List Row} {r : Row} (h : r ∈ filterBestPerQuery rows) : r ∈ rows := by
  unfold filterBestPerQuery at h
  obtain ⟨g, hg, hr⟩ := List.mem_filterMap.mp h
  have := mem_of_mem_groupAdj _ _ g r hg (List.mem_of_head? hr)
  unfold isortDesc at this
  exact (mem_isort _ _ _).mp ((mem_isort _ _ _).mp this)


/-! ### unfolding `execute` -/

theorem execute_prefix {cfg : Cfg} {mode : Mode} {refs : List OMap} {t : SeedTable} {qs : List OMap} {it : Int}
    {o : Output} (hm : mode ≠ .single) (h : execute cfg mode refs t qs it = .ok o) :
    ∃ first second, executeSingle cfg refs t qs it = .ok first ∧
      secondPass cfg refs t qs first it = .ok second := by
  unfold execute at h
  simp only [bind, Except.bind, pure, Except.pure] at h
  cases h1 : executeSingle cfg refs t qs it with
  | error e => rw [h1] at h; cases h
  | ok first =>
    rw [h1] at h
    simp only [if_neg hm] at h
    cases h2 : secondPass cfg refs t qs first it with
    | error e => rw [h2] at h; cases h
    | ok second => exact ⟨first, second, rfl, h2⟩

theorem execute_separate {cfg : Cfg} {refs : List OMap} {t : SeedTable} {qs : List OMap} {it : Int}
    {first second : List Row} (h1 : executeSingle cfg refs t qs it = .ok first)
    (h2 : secondPass cfg refs t qs first it = .ok second) :
    execute cfg .separate refs t qs it =
      .ok { main := filterBestPerQuery (filterBestPerQuery first), extra := [(1, filterBestPerQuery second)] } := by
  unfold execute
  simp [bind, Except.bind, pure, Except.pure, h1, h2]

theorem execute_all {cfg : Cfg} {refs : List OMap} {t : SeedTable} {qs : List OMap} {it : Int}
    {first second : List Row} {oa : Output} (h1 : executeSingle cfg refs t qs it = .ok first)
    (h2 : secondPass cfg refs t qs first it = .ok second)
    (h : execute cfg .all refs t qs it = .ok oa) :
    ∃ joined separate, resolveRows cfg.P cfg.maxDifference
        (filterBestPerQuery first ++ filterBestPerQuery second) = .ok (joined, separate) ∧
      oa = { main := filterBestPerQuery joined,
             extra := [(1, filterBestPerQuery first), (2, filterBestPerQuery second)] } := by
  unfold execute at h
  simp only [bind, Except.bind, pure, Except.pure, h1, h2] at h
  simp only [reduceCtorEq, if_false] at h
  cases h3 : resolveRows cfg.P cfg.maxDifference (filterBestPerQuery first ++ filterBestPerQuery second) with
  | error e => rw [h3] at h; cases h
  | ok v =>
    obtain ⟨joined, separate⟩ := v
    rw [h3] at h
    simp only [Except.ok.injEq] at h
    exact ⟨joined, separate, rfl, h.symm⟩

theorem execute_joined {cfg : Cfg} {refs : List OMap} {t : SeedTable} {qs : List OMap} {it : Int}
    {first second : List Row} {oj : Output} (h1 : executeSingle cfg refs t qs it = .ok first)
    (h2 : secondPass cfg refs t qs first it = .ok second)
    (h : execute cfg .joined refs t qs it = .ok oj) :
    ∃ joined separate, resolveRows cfg.P cfg.maxDifference
        (filterBestPerQuery first ++ filterBestPerQuery second) = .ok (joined, separate) ∧
      oj = { main := filterBestPerQuery joined, extra := [(1, separate)] } := by
  unfold execute at h
  simp only [bind, Except.bind, pure, Except.pure, h1, h2] at h
  simp only [reduceCtorEq, if_false] at h
  cases h3 : resolveRows cfg.P cfg.maxDifference (filterBestPerQuery first ++ filterBestPerQuery second) with
  | error e => rw [h3] at h; cases h
  | ok v =>
    obtain ⟨joined, separate⟩ := v
    rw [h3] at h
    simp only [Except.ok.injEq] at h
    exact ⟨joined, separate, rfl, h.symm⟩

/-! ### `filterBestPerQuery` is idempotent -/

/-- a key-sorted permutation of a strictly key-ascending list is that list -/
theorem sorted_perm_strict {α} (key : α → Int) : ∀ (R L : List α), L.Perm R →
    (R.map key).Pairwise (· < ·) → (L.map key).Pairwise (· ≤ ·) → L = R
  | [], L, hp, _, _ => hp.eq_nil
  | a :: R, [], hp, _, _ => absurd hp.symm.eq_nil (by simp)
  | a :: R, b :: L, hp, hR, hL => by
    rw [List.map_cons, List.pairwise_cons] at hR hL
    have hb : b ∈ a :: R := hp.subset List.mem_cons_self
    have ha : a ∈ b :: L := hp.symm.subset List.mem_cons_self
    have hab : b = a := by
      rcases List.mem_cons.mp hb with h | h
      · exact h
      · have h1 := hR.1 _ (List.mem_map_of_mem h)
        rcases List.mem_cons.mp ha with h' | h'
        · rw [h'] at h1; omega
        · have h2 := hL.1 _ (List.mem_map_of_mem h')
          omega
    subst hab
    rw [sorted_perm_strict key R L (List.Perm.cons_inv hp) hR.2 hL.2]

theorem groupAdj_strict {α} (key : α → Int) : ∀ (R : List α), (R.map key).Pairwise (· < ·) →
    groupAdj key R = R.map (fun x => [x])
  | [], _ => rfl
  | [a], _ => rfl
  | a :: b :: R, h => by
    rw [List.map_cons, List.pairwise_cons] at h
    rw [groupAdj_cons, groupAdj_strict key (b :: R) h.2]
    have : key a ≠ key b := by
      have := h.1 (key b) (by simp)
      omega
    simp [this]

theorem filterMap_head_singletons {α} (R : List α) : (R.map (fun x => [x])).filterMap List.head? = R := by
  induction R with
  | nil => rfl
  | cons a R ih => simp [ih]

theorem filterBest_strict (rows : List Row) :
    ((filterBestPerQuery rows).map (fun r => r.queryId)).Pairwise (· < ·) := by
  unfold filterBestPerQuery
  rw [List.pairwise_map]
  refine List.Pairwise.filterMap _ ?_ (groupAdj_sorted (fun (r : Row) => r.queryId) _ (isort_sorted _ _))
  intro g g' hgg b hb b' hb'
  exact hgg b (List.mem_of_head? hb) b' (List.mem_of_head? hb')

theorem filterBest_of_strict (R : List Row) (h : (R.map (fun r => r.queryId)).Pairwise (· < ·)) :
    filterBestPerQuery R = R := by
  unfold filterBestPerQuery
  have h1 : isort (fun (r : Row) => r.queryId) (isortDesc (fun r => r.confidence) R) = R := by
    apply sorted_perm_strict (fun (r : Row) => r.queryId) R _ _ h (isort_sorted _ _)
    exact (isort_perm _ _).trans (isort_perm _ _)
  rw [h1, groupAdj_strict _ R h, filterMap_head_singletons]

theorem filterBest_idem (rows : List Row) :
    filterBestPerQuery (filterBestPerQuery rows) = filterBestPerQuery rows :=
  filterBest_of_strict _ (filterBest_strict rows)

/-! ### the join of two non-interleaving single-segment rows -/

theorem seg_ext {s s' : Seg} (h1 : s.items = s'.items) (h2 : s.peak = s'.peak) : s = s' := by
  cases s; cases s'; simp_all

/-- a step on two non-interleaving segments, all of whose left items precede the right start,
    changes nothing -/
theorem resolve_id {P : Params} {sa sb l r : Seg} {br : Branch} {pb : Pr}
    (hB : resolvePairB P sa sb = .ok (l, r, br)) (hLa : LeftOK sa) (hRb : RightOK sb)
    (hpb : sb.pairs.head? = some pb) (hsep : Separated sa sb)
    (hAll : ∀ x ∈ sa.items, x.lessOnBoth pb = true) : l = sa ∧ r = sb := by
  obtain ⟨_, _, hpl, hpr⟩ := resolve_sublist P _ _ _ _ _ hB
  rcases resolve_shape hB hLa hRb with ⟨_, rfl, rfl, _⟩ | ⟨_, _, rfl, rfl, _⟩ |
    ⟨cs, e, Lc, Rc, t, _, he, hRsh, hLc, hRc, _, hT⟩
  · exact ⟨rfl, rfl⟩
  · exact ⟨rfl, rfl⟩
  · rcases hRsh with ⟨h0, _⟩ | ⟨c, tl, hc, rfl⟩
    · rw [pairs_nil_of_items_nil h0] at hpb; cases hpb
    · obtain ⟨_, hp', _⟩ := first_pair hc
      rw [hp'] at hpb
      injection hpb with hpb
      subst hpb
      have hcR : c ∈ sb.pairs := List.mem_of_head? hp'
      have heL : e ∈ sa.pairs := List.mem_of_getLast? (last_pair he).2.1
      have hce := hsep e heL c hcR
      have hleq : c.leqAny e = false := by
        unfold Pr.leqAny
        have n1 : c.q ≠ e.q := fun hh => by rw [hh] at hce; omega
        have n2 : c.r ≠ e.r := fun hh => by rw [hh] at hce; omega
        simp [n1, n2]; omega
      have htk : sa.items.takeWhile (fun p => p.lessOnBoth (SP.pr c).toPr) = sa.items :=
        takeWhile_eq_self hAll
      have hdr : sa.items.dropWhile (fun p => p.lessOnBoth (SP.pr c).toPr) = [] := by
        have := List.takeWhile_append_dropWhile (p := fun (p : APos) => p.lessOnBoth (SP.pr c).toPr) (l := sa.items)
        rw [htk] at this
        exact List.append_right_eq_self.mp this
      have hg : ¬ (!(APos.pair c).isPair || (APos.pair c).leqAny e) = true := by
        simp [APos.isPair, APos.leqAny, hleq]
      have htw : sb.items.takeWhile (fun p => !p.isPair || p.leqAny e) = [] := by
        rw [hc, List.takeWhile_cons, if_neg hg]
      have hdw : sb.items.dropWhile (fun p => !p.isPair || p.leqAny e) = sb.items := by
        rw [hc, List.dropWhile_cons, if_neg hg]
      rw [htw] at hRc
      have hRc0 : Rc.items = [] := (List.append_eq_nil_iff.mp hRc.symm).1
      have ht0 : t = [] := (List.append_eq_nil_iff.mp hRc.symm).2
      rw [hdr] at hLc
      rcases hT with ⟨_, hl, rfl⟩ | ⟨_, rfl, hr⟩ | ⟨_, li, ri, hl, hr⟩
      · rw [htk] at hl
        exact ⟨seg_ext hl hpl, rfl⟩
      · rw [ht0, hdw, List.nil_append] at hr
        exact ⟨rfl, seg_ext hr hpr⟩
      · rw [htk, hLc, List.take_nil, List.append_nil] at hl
        rw [hRc0, ht0, hdw, List.drop_nil, List.nil_append, List.nil_append] at hr
        exact ⟨seg_ext hl hpl, seg_ext hr hpr⟩

theorem row_pairs_single {a : Row} {sa : Seg} (ha : a.segments = [sa]) : a.pairs = sa.pairs := by
  unfold Row.pairs; rw [ha]; simp

theorem joinRows_union_of_unpaired_before (P : Params) (a b : Row) (sa sb : Seg) (pa pb : Pr)
    (ha : a.segments = [sa]) (hb : b.segments = [sb])
    (hpa : sa.pairs.head? = some pa) (hpb : sb.pairs.head? = some pb) (hlt : pa.r.pos < pb.r.pos)
    (hLa : LeftOK sa) (hRb : RightOK sb) (hS : StrictCoords sa sb) (hsep : Separated sa sb)
    (hv : (Row.create P [sa, sb] a.queryId a.referenceId a.queryLength a.referenceLength a.rev).isOneToOneAndCollinear = true)
    (hU : ∀ x ∈ sa.items, x.isPair = false → x.lessOnBoth pb = true) :
    ∃ j, joinRows P a b = .ok (some j) ∧ j.pairs = sa.pairs ++ sb.pairs := by
  have hAll : ∀ x ∈ sa.items, x.lessOnBoth pb = true := by
    intro x hx
    cases x with
    | pair p =>
      have := hsep p (mem_pairs.mpr hx) pb (List.mem_of_head? hpb)
      simp only [APos.lessOnBoth, lessOnBoth_iff]; omega
    | uref r => exact hU _ hx rfl
    | uqry q s => exact hU _ hx rfl
  obtain ⟨l, r, br, hB⟩ := resolve_total P sa sb hLa hRb
  obtain ⟨rfl, rfl⟩ := resolve_id hB hLa hRb hpb hsep hAll
  have hres : resolvePair P l r = .ok (l, r) := ConflictAll.resolvePair_ok_iff.mpr ⟨br, hB⟩
  obtain ⟨ta, hta⟩ : ∃ ta, a.pairs = pa :: ta := by
    rw [row_pairs_single ha]
    cases hp : l.pairs with
    | nil => rw [hp] at hpa; cases hpa
    | cons x xs => rw [hp] at hpa; injection hpa with hpa; exact ⟨xs, by rw [hpa]⟩
  obtain ⟨tb, htb⟩ : ∃ tb, b.pairs = pb :: tb := by
    rw [row_pairs_single hb]
    cases hp : r.pairs with
    | nil => rw [hp] at hpb; cases hpb
    | cons x xs => rw [hp] at hpb; injection hpb with hpb; exact ⟨xs, by rw [hpb]⟩
  refine ⟨Row.create P [l, r] a.queryId a.referenceId a.queryLength a.referenceLength a.rev, ?_, ?_⟩
  · unfold joinRows
    rw [hta, htb, ha, hb]
    simp only [if_pos hlt, hres, bind, Except.bind, pure, Except.pure, hv, if_true]
  · show [l, r].flatMap Seg.pairs = _
    simp

/-- `joinRows_union` is false as stated: the unpaired reference label `⟨9, 1000⟩` between the two
    pairs of `sa` is not before the first pair of `sb`, the step takes the `dropLeft` branch and the
    pair `(2, 2)` is lost although every hypothesis holds. -/
theorem joinRows_union_counterexample :
    ∃ (P : Params) (a b : Row) (sa sb : Seg) (pa pb : Pr),
      a.segments = [sa] ∧ b.segments = [sb] ∧
      sa.pairs.head? = some pa ∧ sb.pairs.head? = some pb ∧ pa.r.pos < pb.r.pos ∧
      LeftOK sa ∧ RightOK sb ∧ StrictCoords sa sb ∧ Separated sa sb ∧
      (Row.create P [sa, sb] a.queryId a.referenceId a.queryLength a.referenceLength a.rev).isOneToOneAndCollinear = true ∧
      ∃ j, joinRows P a b = .ok (some j) ∧ j.pairs ≠ sa.pairs ++ sb.pairs := by
  refine ⟨⟨1000, 1, -250, 1500, 1000, 1200⟩,
    { (default : Row) with segments := [⟨0, [.pair ⟨⟨1, 10⟩, ⟨1, 10⟩, 0, 0⟩, .uref ⟨9, 1000⟩, .pair ⟨⟨2, 20⟩, ⟨2, 20⟩, 900, 0⟩]⟩] },
    { (default : Row) with segments := [⟨0, [.pair ⟨⟨6, 60⟩, ⟨6, 60⟩, 0, 0⟩, .pair ⟨⟨7, 70⟩, ⟨7, 70⟩, 0, 0⟩]⟩] },
    ⟨0, [.pair ⟨⟨1, 10⟩, ⟨1, 10⟩, 0, 0⟩, .uref ⟨9, 1000⟩, .pair ⟨⟨2, 20⟩, ⟨2, 20⟩, 900, 0⟩]⟩,
    ⟨0, [.pair ⟨⟨6, 60⟩, ⟨6, 60⟩, 0, 0⟩, .pair ⟨⟨7, 70⟩, ⟨7, 70⟩, 0, 0⟩]⟩,
    ⟨⟨1, 10⟩, ⟨1, 10⟩, 0, 0⟩, ⟨⟨6, 60⟩, ⟨6, 60⟩, 0, 0⟩, rfl, rfl, rfl, rfl, by decide, ?_, ?_, ?_, ?_, ?_, ?_⟩
  · exact ⟨by unfold PyNodup; decide +kernel, Or.inr ⟨_, rfl⟩, by unfold PairsAscending; decide +kernel⟩
  · exact ⟨by unfold PyNodup; decide +kernel, Or.inr ⟨_, rfl⟩, by unfold PairsAscending; decide +kernel⟩
  · unfold StrictCoords; decide +kernel
  · unfold Separated; decide +kernel
  · decide +kernel
  · apply ex_of_opt
    decide +kernel

/-- hence the universally quantified statement `Coma.Proofs.joinRows_union` cannot be proved -/
theorem joinRows_union_false :
    ¬ ∀ (P : Params) (a b : Row) (sa sb : Seg) (pa pb : Pr),
      a.segments = [sa] → b.segments = [sb] →
      sa.pairs.head? = some pa → sb.pairs.head? = some pb → pa.r.pos < pb.r.pos →
      LeftOK sa → RightOK sb → StrictCoords sa sb → Separated sa sb →
      (Row.create P [sa, sb] a.queryId a.referenceId a.queryLength a.referenceLength a.rev).isOneToOneAndCollinear = true →
      ∃ j, joinRows P a b = .ok (some j) ∧ j.pairs = sa.pairs ++ sb.pairs := by
  intro H
  obtain ⟨P, a, b, sa, sb, pa, pb, h1, h2, h3, h4, h5, h6, h7, h8, h9, h10, j, hj, hne⟩ :=
    joinRows_union_counterexample
  obtain ⟨j', hj', he⟩ := H P a b sa sb pa pb h1 h2 h3 h4 h5 h6 h7 h8 h9 h10
  rw [hj] at hj'
  injection hj' with hj'
  injection hj' with hj'
  subst hj'
  exact hne he

end Coma.Proofs.Modes

namespace Coma.Proofs
open Coma Coma.Spec Coma.Proofs.Modes

theorem mode_files (cfg : Cfg) (refs : List OMap) (t : SeedTable) (qs : List OMap) (it : Int)
    (oa oj os : Output)
    (ha : execute cfg .all refs t qs it = .ok oa) (hj : execute cfg .joined refs t qs it = .ok oj)
    (hs : execute cfg .separate refs t qs it = .ok os) :
    oa.main = oj.main ∧
    (∃ f1 f2 s1, oa.extra = [(1, f1), (2, f2)] ∧ os.extra = [(1, s1)] ∧ f1 = os.main ∧ f2 = s1) := by
  obtain ⟨first, second, h1, h2⟩ := execute_prefix (by decide) ha
  obtain ⟨ja, sa, hra, rfl⟩ := execute_all h1 h2 ha
  obtain ⟨jj, sj, hrj, rfl⟩ := execute_joined h1 h2 hj
  rw [execute_separate h1 h2] at hs
  injection hs with hs
  subst hs
  rw [hra] at hrj
  injection hrj with hrj
  injection hrj with hj1 hj2
  subst hj1
  exact ⟨rfl, _, _, _, rfl, rfl, (filterBest_idem first).symm, rfl⟩

theorem aligned_rest_flags (cfg : Cfg) (refs : List OMap) (t : SeedTable) (qs : List OMap) (it : Int)
    (os : Output) (hs : execute cfg .separate refs t qs it = .ok os) :
    (∀ r ∈ os.main, r.alignedRest = false) ∧ (∀ f ∈ os.extra, ∀ r ∈ f.2, r.alignedRest = true) := by
  obtain ⟨first, second, h1, h2⟩ := execute_prefix (by decide) hs
  rw [execute_separate h1 h2] at hs
  injection hs with hs
  subst hs
  constructor
  · intro r hr
    exact executeSingle_flag h1 r (filterBest_mem (filterBest_mem hr))
  · intro f hf r hr
    simp only [List.mem_singleton] at hf
    subst hf
    exact secondPass_flag h2 r (filterBest_mem hr)

theorem resolveRows_partition (P : Params) (d : Int) (rows joined separate : List Row)
    (h : resolveRows P d rows = .ok (joined, separate))
    (h2 : ∀ q r, (rows.filter (fun x => x.queryId = q ∧ x.referenceId = r)).length ≤ 2) :
    separate.length + 2 * joined.length = rows.length ∧ (∀ x ∈ separate, x ∈ rows) := by
  rw [resolveRows_eq] at h
  have hlen : ∀ g ∈ groupsOf rows, g.length ≤ 2 := by
    intro g hg
    obtain ⟨q, r, rfl⟩ := groupsOf_class hg
    exact h2 q r
  obtain ⟨h1, h3⟩ := resolveGroups_count h hlen
  rw [groupsOf_sum_length] at h1
  refine ⟨h1, ?_⟩
  intro x hx
  obtain ⟨g, hg, hxg⟩ := h3 x hx
  exact groupsOf_mem hg x hxg

theorem resolveRows_eligibility (P : Params) (d : Int) (rows joined separate : List Row)
    (h : resolveRows P d rows = .ok (joined, separate)) :
    ∀ j ∈ joined, ∃ x ∈ rows, ∃ y ∈ rows,
      x.queryId = y.queryId ∧ x.referenceId = y.referenceId ∧ x.rev = y.rev ∧
      iabs (max x.rStart y.rStart - min x.rEnd y.rEnd) ≤ d ∧
      joinRows P x y = .ok (some j) := by
  rw [resolveRows_eq] at h
  intro j hj
  obtain ⟨g, hg, x, y, rest, rfl, hov, hjn⟩ := resolveGroups_joined h j hj
  have hx : x ∈ x :: y :: rest := List.mem_cons_self
  have hy : y ∈ x :: y :: rest := List.mem_cons_of_mem _ List.mem_cons_self
  unfold checkOverlap at hov
  simp only [Bool.and_eq_true, decide_eq_true_eq] at hov
  obtain ⟨⟨h1, h2⟩, h3⟩ := hov
  exact ⟨x, groupsOf_mem hg x hx, y, groupsOf_mem hg y hy, groupsOf_qid hg x hx y hy, h2, h1, h3, hjn⟩

theorem joinRows_subset (P : Params) (a b j : Row) (h : joinRows P a b = .ok (some j)) :
    (∀ p ∈ j.pairs, p ∈ a.pairs ∨ p ∈ b.pairs) ∧
    j.queryId = a.queryId ∧ j.referenceId = a.referenceId ∧ j.rev = a.rev ∧
    j.queryLength = a.queryLength ∧ j.referenceLength = a.referenceLength ∧
    j.pairs ≠ [] ∧ ValidMatching j.rev (sitePairs j.pairs) := by
  obtain ⟨pa, pb, sa, sb, ta, tb, ua, ub, l, r, h1, h2, h3, h4, hres, hj, hc⟩ := joinRows_ok h
  obtain ⟨hne, hvm⟩ := valid_of_check hc
  refine ⟨?_, by rw [hj]; rfl, by rw [hj]; rfl, by rw [hj]; rfl, by rw [hj]; rfl, by rw [hj]; rfl, hne, hvm⟩
  intro p hp
  have hjp : j.pairs = l.pairs ++ r.pairs := by
    rw [hj]; show [l, r].flatMap Seg.pairs = _; simp
  rw [hjp] at hp
  rcases hres with ⟨_, hr⟩ | ⟨_, hr⟩
  · obtain ⟨br, hB⟩ := ConflictAll.resolvePair_ok_iff.mp hr
    obtain ⟨s1, s2, _, _⟩ := resolve_sublist P _ _ _ _ _ hB
    rcases List.mem_append.mp hp with hp | hp
    · exact Or.inl (head_pairs_subset h3 p (seg_pairs_subset s1 p hp))
    · exact Or.inr (head_pairs_subset h4 p (seg_pairs_subset s2 p hp))
  · obtain ⟨br, hB⟩ := ConflictAll.resolvePair_ok_iff.mp hr
    obtain ⟨s1, s2, _, _⟩ := resolve_sublist P _ _ _ _ _ hB
    rcases List.mem_append.mp hp with hp | hp
    · exact Or.inr (head_pairs_subset h4 p (seg_pairs_subset s1 p hp))
    · exact Or.inl (head_pairs_subset h3 p (seg_pairs_subset s2 p hp))

/-- FALSE as stated — see `Modes.joinRows_union_counterexample`; the corrected statement is
    `Modes.joinRows_union_of_unpaired_before`. -/
theorem joinRows_union (P : Params) (a b : Row) (sa sb : Seg) (pa pb : Pr)
    (ha : a.segments = [sa]) (hb : b.segments = [sb])
    (hpa : sa.pairs.head? = some pa) (hpb : sb.pairs.head? = some pb) (hlt : pa.r.pos < pb.r.pos)
    (hLa : LeftOK sa) (hRb : RightOK sb) (hS : StrictCoords sa sb) (hsep : Separated sa sb)
    (hU : ∀ x ∈ sa.items, x.isPair = false → x.lessOnBoth pb = true)
    (hv : (Row.create P [sa, sb] a.queryId a.referenceId a.queryLength a.referenceLength a.rev).isOneToOneAndCollinear = true) :
    ∃ j, joinRows P a b = .ok (some j) ∧ j.pairs = sa.pairs ++ sb.pairs :=
  Modes.joinRows_union_of_unpaired_before P a b sa sb pa pb ha hb hpa hpb hlt hLa hRb hS hsep hv hU

theorem join_drops_segments_counterexample :
    ∃ j, joinRows ⟨1000, 1, -250, 1500, 1000, 1200⟩
      { (default : Row) with segments := [⟨0, [.pair ⟨⟨1, 10⟩, ⟨1, 10⟩, 0, 0⟩, .pair ⟨⟨2, 20⟩, ⟨2, 20⟩, 0, 0⟩]⟩,
                                           ⟨0, [.pair ⟨⟨3, 30⟩, ⟨3, 30⟩, 0, 0⟩, .pair ⟨⟨4, 40⟩, ⟨4, 40⟩, 0, 0⟩]⟩] }
      { (default : Row) with segments := [⟨0, [.pair ⟨⟨6, 60⟩, ⟨6, 60⟩, 0, 0⟩, .pair ⟨⟨7, 70⟩, ⟨7, 70⟩, 0, 0⟩]⟩] } = .ok (some j) ∧
      sitePairs j.pairs = [(1, 1), (2, 2), (6, 6), (7, 7)] := by
  apply ex_of_opt
  decide +kernel

theorem unchecked_join_counterexample :
    ∃ j, joinRowsUnchecked ⟨1000, 1, -250, 1500, 1000, 1200⟩
      { (default : Row) with segments := [⟨0, [.pair ⟨⟨1, 10⟩, ⟨2, 20⟩, 0, 0⟩, .pair ⟨⟨2, 20⟩, ⟨3, 30⟩, 0, 0⟩, .pair ⟨⟨3, 30⟩, ⟨4, 40⟩, 900, 0⟩]⟩] }
      { (default : Row) with segments := [⟨50, [.pair ⟨⟨6, 60⟩, ⟨1, 10⟩, 900, 0⟩, .pair ⟨⟨7, 70⟩, ⟨2, 20⟩, 900, 0⟩, .pair ⟨⟨8, 80⟩, ⟨3, 30⟩, 0, 0⟩]⟩] } = .ok j ∧
      sitePairs j.pairs = [(1, 2), (2, 3), (8, 3)] ∧
      j.isOneToOneAndCollinear = false := by
  apply ex_of_ok
  decide +kernel

end Coma.Proofs
