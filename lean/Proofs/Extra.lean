import Props.Defs
import Proofs.Chain
import Proofs.SegFactory
import Proofs.SortLemmas
namespace Coma.Proofs
open Coma Coma.Spec

/-- total of a chain of segments (with their ends) under the real scorer -/
def segChainTotal (P : Params) (C : ChainCfg) (c : List (Seg × Ends)) : Option Rat :=
  chainTotal (fun (x : Seg × Ends) => ((x.1.score P : Int) : Rat)) (fun a b => joinScore C.mult C.variant a.2 b.2) c

/-- C14 for the real chainer: the non-empty part of the result is an order-respecting selection
    of the key-ordered non-empty input segments whose total (segment scores + join scores) is
    finite and at least the total of EVERY non-empty order-respecting selection -/
theorem chainSegs_optimal (P : Params) (C : ChainCfg) (segs out : List Seg) (ne : List (Seg × Ends))
    (h : chainSegs P C segs = some out)
    (hne : withEnds? (segs.filter (fun s => !s.isEmpty)) = some ne) (hnn : ne ≠ []) :
    ∃ sel : List (Seg × Ends), sel.Sublist (isort (fun (x : Seg × Ends) => x.2.key) ne) ∧ sel ≠ [] ∧
      out = sel.map (·.1) ++ segs.filter Seg.isEmpty ∧
      ∃ tot : Rat, segChainTotal P C sel = some tot ∧
        ∀ c : List (Seg × Ends), c.Sublist (isort (fun (x : Seg × Ends) => x.2.key) ne) → c ≠ [] →
          leOpt (segChainTotal P C c) tot := by
  have hpre : isort (fun (x : Seg × Ends) => x.2.key) ne ≠ [] := by
    intro h0
    have hl := isort_length (fun (x : Seg × Ends) => x.2.key) ne
    rw [h0] at hl
    exact hnn (List.eq_nil_of_length_eq_zero hl.symm)
  unfold chainSegs at h
  simp only at h
  rw [hne] at h
  simp only at h
  · cases h
    obtain ⟨hi1, _, hi3⟩ := dp_indices (fun (x : Seg × Ends) => ((x.1.score P : Int) : Rat))
      (fun a b => joinScore C.mult C.variant a.2 b.2)
      (isort (fun (x : Seg × Ends) => x.2.key) ne) hpre
    refine ⟨_, dp_sublist (fun (x : Seg × Ends) => ((x.1.score P : Int) : Rat))
      (fun a b => joinScore C.mult C.variant a.2 b.2)
      (isort (fun (x : Seg × Ends) => x.2.key) ne), ?_, ?_,
      (dpChain (fun (x : Seg × Ends) => ((x.1.score P : Int) : Rat))
        (fun a b => joinScore C.mult C.variant a.2 b.2)
        (isort (fun (x : Seg × Ends) => x.2.key) ne)).2, ?_, ?_⟩
    · intro hnil
      cases hd : (dpChain (fun (x : Seg × Ends) => ((x.1.score P : Int) : Rat))
        (fun a b => joinScore C.mult C.variant a.2 b.2)
        (isort (fun (x : Seg × Ends) => x.2.key) ne)).1 with
      | nil => exact hi1 hd
      | cons i t =>
        rw [hd] at hnil hi3
        have hlt := hi3 i (by simp)
        simp [List.getElem?_eq_getElem hlt] at hnil
    · rw [List.map_filterMap]
    · exact dp_total (fun (x : Seg × Ends) => ((x.1.score P : Int) : Rat))
        (fun a b => joinScore C.mult C.variant a.2 b.2)
        (isort (fun (x : Seg × Ends) => x.2.key) ne) hpre
    · intro c hc hcn
      exact dp_optimal (fun (x : Seg × Ends) => ((x.1.score P : Int) : Rat))
        (fun a b => joinScore C.mult C.variant a.2 b.2)
        (isort (fun (x : Seg × Ends) => x.2.key) ne) c hc hcn

/-- C13, completeness when the break threshold is at least the minimum score: then no stale
    current segment survives a break, and a run is only ever abandoned at a break; stated as: the
    scan never leaves a qualifying prefix run unreported — whenever the scan state after the whole
    list has `cur = some r` with `r.score ≥ ms`, `r` is among the reported ranges (it is flushed at
    the end), and the builder state never holds a current segment whose score is ≥ ms after a
    flush -/
theorem scan_flush_complete (ms bst : Int) (scores : List Int) :
    let st := scanFrom ms bst {} 0 scores
    ∀ r, st.cur = some r → ms ≤ r.score → r ∈ scanRanges ms bst scores := by
  intro st r hc hs
  show r ∈ (ScanSt.flush ms st).res
  unfold ScanSt.flush
  rw [hc]
  simp only
  rw [if_pos (by exact hs)]
  simp

end Coma.Proofs
