import Proofs.SrcBlind_Erase
/-! a candidate row does not depend on the engine's `iteration` counter, up to `source` -/
namespace Coma.Proofs.SrcBlind
open Coma Coma.Spec

theorem scoreAll?_eA (P : Params) (xs : List APos) :
    scoreAll? P (xs.map eA) = scoreAll? P xs := by
  unfold scoreAll?
  have h1 : (xs.map eA).any (fun a => !a.isPair) = xs.any (fun a => !a.isPair) := by
    rw [List.any_map]; congr 1; funext a; simp
  have h2 : (xs.map eA).map (APos.score P) = xs.map (APos.score P) := by
    rw [List.map_map]; congr 1; funext a; simp
  rw [h1, h2]

/-- one seed peak: the segments built with counter `it` are, after erasure, those built with `0` -/
theorem segmentsOfPeak_erase (P : Params) (ref qry : OMap) (rev : Bool) (it peak : Int) :
    (segmentsOfPeak P ref qry rev it peak).map (List.map eS) = segmentsOfPeak P ref qry rev 0 peak := by
  unfold segmentsOfPeak
  have h := engineAlign_eraseSrc P.md ref qry peak (peak + qry.length) rev it
  rw [← eA_eq_eraseSrc] at h
  rw [← h]
  dsimp only
  rw [scoreAll?_eA, getSegments_relabel]
  cases scoreAll? P (engineAlign P.md ref qry peak (peak + qry.length) rev it) <;> rfl

theorem segmentsOfPeaks_erase (P : Params) (ref qry : OMap) (rev : Bool) : ∀ (peaks : List Int) (it it' : Int),
    (segmentsOfPeaks P ref qry rev it peaks).map (List.map eS) =
    (segmentsOfPeaks P ref qry rev it' peaks).map (List.map eS)
  | [], _, _ => rfl
  | p :: ps, it, it' => by
    have h1 : (segmentsOfPeak P ref qry rev it p).map (List.map eS) =
        (segmentsOfPeak P ref qry rev it' p).map (List.map eS) := by
      rw [segmentsOfPeak_erase, segmentsOfPeak_erase]
    have h2 := segmentsOfPeaks_erase P ref qry rev ps (it + 1) (it' + 1)
    unfold segmentsOfPeaks
    revert h1 h2
    cases segmentsOfPeak P ref qry rev it p <;> cases segmentsOfPeak P ref qry rev it' p <;>
      cases segmentsOfPeaks P ref qry rev (it + 1) ps <;> cases segmentsOfPeaks P ref qry rev (it' + 1) ps <;>
      simp [bind, Except.bind, pure, Except.pure, Except.map] <;> intros <;> simp_all

/-- common normal form of an erased candidate -/
theorem alignerAlign_erase (P : Params) (C : ChainCfg) (ref qry : OMap) (peaks : List Int) (rev : Bool) (it : Int) :
    (alignerAlign P C ref qry peaks rev it).map E =
      (do let segs ← (segmentsOfPeaks P ref qry rev it peaks).map (List.map eS)
          let res ← resolveConflicts P C segs
          pure (Row.create P res qry.id ref.id qry.length ref.length rev)) := by
  unfold alignerAlign
  cases segmentsOfPeaks P ref qry rev it peaks with
  | error e => rfl
  | ok segs =>
    simp only [bind, Except.bind, pure, Except.pure, Except.map]
    rw [rc_relabel_id]
    cases resolveConflicts P C segs with
    | error e => rfl
    | ok res =>
      simp only [Except.map]
      rw [create_eS]

theorem alignerAlign_E (P : Params) (C : ChainCfg) (ref qry : OMap) (peaks : List Int) (rev : Bool) (it it' : Int) :
    (alignerAlign P C ref qry peaks rev it).map E = (alignerAlign P C ref qry peaks rev it').map E := by
  rw [alignerAlign_erase, alignerAlign_erase, segmentsOfPeaks_erase P ref qry rev peaks it it']

end Coma.Proofs.SrcBlind
