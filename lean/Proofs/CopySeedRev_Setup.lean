/-
  Proofs/CopySeedRev_Setup.lean — from the model to the label-level description `RevQ` (helper for
  Proofs/CopySeedRev.lean): the reversed vector of the mirror image of an exact, trimmed copy.
-/
import Proofs.CopySeed_Setup
import Proofs.CopySeedRev_Corr
import Proofs.Mirror_Labels
namespace Coma.Proofs.CopySeed
open Coma Coma.Spec Coma.Proofs Coma.Proofs.Vector

theorem getD_reverse' (v : List Nat) (x : Nat) (hx : x < v.length) :
    v.reverse.getD x 0 = v.getD (v.length - 1 - x) 0 := by
  simp [List.getD_eq_getElem?_getD, List.getElem?_reverse hx]

/-- the label-level description of the reversed vector of the mirror image -/
theorem revq_of (R Q : List Int) (i n : Nat) (len : Int) (mv : List Nat)
    (hn : 2 ≤ n) (hgaps : R.Pairwise (fun a b => a + 2000 ≤ b)) (hin : i + n < R.length)
    (hQ : Q = ((R.drop i).take n).map (fun p => p - R.getD i 0))
    (hlen : len = lastD 0 Q + 1)
    (hm : sequenceOf 100 4 ((Q.map (fun p => len - 1 - p)).reverse) 0 none = .ok mv) :
    RevQ (fun m => R.getD m 0) i n mv.reverse := by
  have hg : ∀ m m', m < m' → m' < R.length → R.getD m 0 + 2000 ≤ R.getD m' 0 :=
    fun m m' h1 h2 => pairwise_getD R _ hgaps m m' h1 h2
  have hQlen : Q.length = n := by rw [hQ]; exact copy_length R i n (by omega)
  have hQget : ∀ j, j < n → Q.getD j 0 = R.getD (i + j) 0 - R.getD i 0 := by
    intro j hj; rw [hQ]; exact copy_getD R i n j (by omega) hj
  have hmono : ∀ j, j < n → R.getD i 0 ≤ R.getD (i + j) 0 := by
    intro j hj
    by_cases h0 : j = 0
    · subst h0; exact Int.le_refl _
    · have := hg i (i + j) (by omega) (by omega); omega
  have hmono' : ∀ j, j < n → R.getD (i + j) 0 ≤ R.getD (i + (n - 1)) 0 := by
    intro j hj
    by_cases hjn : j = n - 1
    · rw [hjn]; exact Int.le_refl _
    · have := hg (i + j) (i + (n - 1)) (by omega) (by omega); omega
  have hQasc : Q.Pairwise (fun a b => a ≤ b) := by
    rw [List.pairwise_iff_getElem]
    intro a b ha hb hab
    have h1 := hQget a (by omega)
    have h2 := hQget b (by omega)
    rw [getD_of_lt Q a ha] at h1
    rw [getD_of_lt Q b hb] at h2
    have := hg (i + a) (i + b) (by omega) (by omega)
    omega
  have hQlast : Q.getLast? = some (R.getD (i + (n - 1)) 0 - R.getD i 0) := by
    rw [List.getLast?_eq_getElem?, hQlen]
    have h1 := hQget (n - 1) (by omega)
    have hlt : n - 1 < Q.length := by omega
    rw [getD_of_lt Q _ hlt] at h1
    rw [List.getElem?_eq_getElem hlt, h1]
  have hQhead : Q.head? = some 0 := by
    have h1 := hQget 0 (by omega)
    have hlt : 0 < Q.length := by omega
    rw [getD_of_lt Q _ hlt] at h1
    rw [List.head?_eq_getElem?, List.getElem?_eq_getElem hlt, h1]
    simp
  have hQmem : ∀ p, p ∈ Q ↔ ∃ j, j < n ∧ p = R.getD (i + j) 0 - R.getD i 0 := by
    intro p
    rw [mem_iff_getD, hQlen]
    constructor
    · rintro ⟨j, hj, rfl⟩; exact ⟨j, hj, hQget j hj⟩
    · rintro ⟨j, hj, rfl⟩; exact ⟨j, hj, (hQget j hj).symm⟩
  have hl1 : len - 1 = R.getD (i + (n - 1)) 0 - R.getD i 0 := by
    rw [hlen, Mirror.lastD_eq, hQlast]
    simp
  generalize hMdef : (Q.map (fun p => len - 1 - p)).reverse = M at hm
  have hMmem : ∀ p, p ∈ M ↔ ∃ j, j < n ∧ p = R.getD (i + (n - 1)) 0 - R.getD (i + j) 0 := by
    intro p
    rw [← hMdef, List.mem_reverse, List.mem_map]
    constructor
    · rintro ⟨a, ha, rfl⟩
      obtain ⟨j, hj, rfl⟩ := (hQmem a).mp ha
      exact ⟨j, hj, by omega⟩
    · rintro ⟨j, hj, rfl⟩
      exact ⟨_, (hQmem _).mpr ⟨j, hj, rfl⟩, by omega⟩
  have hMasc : Ascending M := by
    unfold Ascending
    rw [← hMdef, List.pairwise_reverse, List.pairwise_map]
    exact hQasc.imp (fun h => by omega)
  have hMlast : M.getLast? = some (R.getD (i + (n - 1)) 0 - R.getD i 0) := by
    rw [← hMdef, List.getLast?_reverse, List.head?_map, hQhead]
    simp [hl1]
  obtain ⟨hml, _, hmb⟩ := seq_spec M 0 none mv hMasc hm
  have hstopm : stopEff' M none = R.getD (i + (n - 1)) 0 - R.getD i 0 := by
    simp [stopEff', hMlast]
  have hlastnn := hmono (n - 1) (by omega)
  have hmlen : mv.length = qb (fun m => R.getD m 0) i (n - 1) + 1 := by
    rw [hml, hstopm, vecGo_length 100 _ (by omega) M 0 _ hMasc
      (fun p hp => mem_le_last M _ hMasc hMlast p hp) hMlast, if_neg (by omega)]
    unfold qb
    simp
  have hbin : ∀ j, binOf 0 (R.getD (i + (n - 1)) 0 - R.getD (i + j) 0) = mb (fun m => R.getD m 0) i n j := by
    intro j
    unfold binOf mb
    simp
  have hmbL : ∀ j, j < n → mb (fun m => R.getD m 0) i n j ≤ qb (fun m => R.getD m 0) i (n - 1) := by
    intro j hj
    have h1 := hmono j hj
    have h2 := hmono' j hj
    unfold mb qb
    simp only []
    omega
  refine ⟨by rw [List.length_reverse]; exact hmlen, ?_⟩
  intro x hx
  rw [List.length_reverse] at hx
  rw [getD_reverse' mv x hx]
  obtain ⟨hb1, hb2⟩ := hmb (mv.length - 1 - x) (by omega)
  refine ⟨hb1, hb2.trans ?_⟩
  constructor
  · rintro ⟨p, hp, _, _, h3, h4⟩
    obtain ⟨j, hj, rfl⟩ := (hMmem p).mp hp
    rw [hbin] at h3 h4
    have := hmbL j hj
    refine ⟨j, hj, ?_, ?_⟩ <;> (unfold xb; omega)
  · rintro ⟨j, hj, h3, h4⟩
    have h1 := hmono' j hj
    have := hmbL j hj
    refine ⟨_, (hMmem _).mpr ⟨j, hj, rfl⟩, by omega, ?_, ?_, ?_⟩
    · rw [hbin]; omega
    · rw [hbin]; unfold xb at h3 h4; omega
    · rw [hbin]; unfold xb at h3 h4; omega

end Coma.Proofs.CopySeed
