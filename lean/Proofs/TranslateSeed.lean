/-
  Proofs/TranslateSeed.lean — the derivation of a seed (secondary stage + bookkeeping of `deriveSeed`) moves with the
  reference: together with `alignerAlign_shift` the whole pipeline after the selection of the primary peaks is
  translation-equivariant.
-/
import Proofs.TranslateSec
namespace Coma.Proofs
open Coma Coma.Spec

def shiftPSeed (d : Int) (s : PSeed) : PSeed := { s with primary := s.primary + d, captured := s.captured.map (· + d) }
def shiftSeed (d : Int) (s : Seed) : Seed := { s with peaks := s.peaks.map (· + d) }

/-! ### helper lemmas: adding a constant to every position -/

theorem isort_add (d : Int) (l : List Int) : isort id (l.map (· + d)) = (isort id l).map (· + d) :=
  Translate.isort_map_add (· + d) id id d (fun _ => rfl) l

theorem strictlyAscending_add (d : Int) : ∀ l : List Int, strictlyAscending (l.map (· + d)) = strictlyAscending l
  | [] => rfl
  | [_] => rfl
  | a :: b :: t => by
    have ih := strictlyAscending_add d (b :: t)
    simp only [List.map_cons] at ih ⊢
    simp only [strictlyAscending, ih]
    congr 1
    apply decide_eq_decide.2; omega

theorem map_add_inj (d : Int) (a b : List Int) : a.map (· + d) = b.map (· + d) ↔ a = b := by
  constructor
  · intro h
    have h2 := congrArg (List.map (· - d)) h
    simp only [List.map_map] at h2
    have e : ((fun x : Int => x - d) ∘ fun x => x + d) = id := by funext x; simp only [Function.comp, id]; omega
    rw [e, List.map_id, List.map_id] at h2
    exact h2
  · rintro rfl; rfl

theorem contains_add (d x : Int) (l : List Int) : (l.map (· + d)).contains (x + d) = l.contains x := by
  induction l with
  | nil => rfl
  | cons a as ih =>
    simp only [List.map_cons, List.contains_cons, ih]
    congr 1
    simp only [BEq.beq]
    apply decide_eq_decide.2; omega

theorem toBp_add (b res start d : Int) : toBp b res (start + d) = toBp b res start + d := by
  simp only [toBp]; omega

theorem tieConsistent_shift (c : SecCfg) (start d : Int) (all : List (Nat × Int)) (pk : List (Int × Int)) (cap : List Int) :
    tieConsistent c (start + d) all (pk.map fun p => (p.1 + d, p.2)) (cap.map (· + d)) = tieConsistent c start all pk cap := by
  unfold tieConsistent
  have e1 : (pk.map fun p => (p.1 + d, p.2)).map (·.2) = pk.map (·.2) := by
    rw [List.map_map]; rfl
  simp only [e1, List.length_map, isort_add, strictlyAscending_add]
  congr 1
  · congr 1
    rw [List.filter_map, List.all_map]
    have ef : ((fun p : Int × Int => decide (p.2 > minHeight (List.map (fun x => x.2) pk))) ∘ fun p : Int × Int => (p.1 + d, p.2))
        = (fun p : Int × Int => decide (p.2 > minHeight (List.map (fun x => x.2) pk))) := rfl
    rw [ef]
    apply List.all_congr rfl
    intro p
    simp only [Function.comp, contains_add]
  · rw [List.all_map]
    apply List.all_congr rfl
    intro x
    simp only [Function.comp, List.any_map, toBp_add]
    apply List.any_congr rfl
    intro p
    show (decide (toBp (p.1 : Int) c.res start + d = x + d) && _) = (decide (toBp (p.1 : Int) c.res start = x) && _)
    congr 1
    apply decide_eq_decide.2; omega

theorem deriveSeed_shift_aux (c : SecCfg) (r q : OMap) (rid : Int) (rev : Bool) (prim : Int) (cap : List Int) (d : Int)
    (hid : r.id = rid)
    (h0 : 0 < prim + q.length + c.margin) (hd : 0 < prim + d + q.length + c.margin) :
    deriveSeed c [shiftRef d r] q ⟨rid, rev, prim + d, cap.map (· + d)⟩
      = (deriveSeed c [r] q ⟨rid, rev, prim, cap⟩).map (fun p => (shiftSeed d p.1, p.2)) := by
  have hf1 : [shiftRef d r].find? (fun x => x.id = rid) = some (shiftRef d r) := by
    simp [List.find?, shiftRef, hid]
  have hf2 : [r].find? (fun x => x.id = rid) = some r := by simp [List.find?, hid]
  unfold deriveSeed
  simp only []
  rw [hf1, hf2]
  simp only []
  rw [refineCorrelation_shift_of c r q rev prim d (by omega) (by omega),
    refine_shift_pos c r q rev prim d h0 hd]
  have e1 : prim + d - c.margin = prim - c.margin + d := by omega
  unfold refine
  cases refineCorrelation c r q rev prim with
  | error e => rfl
  | ok corr =>
    simp only [bind, Except.bind, pure, Except.pure, Except.map]
    generalize createPeaks c.keep c.res (prim - c.margin)
      ((findPeaksSecondary c.thr (corr.map Int.ofNat)).map fun p => ((p.1 : Int), p.2)) = pk
    generalize findPeaksSecondary c.thr (corr.map Int.ofNat) = all
    by_cases hk : (all.length : Int) ≤ c.keep
    · simp only [hk, if_true, shiftSeed, List.map_map]
      rfl
    · simp only [hk, if_false, shiftSeed, e1, tieConsistent_shift]
      have e2 : (pk.map fun p => (p.1 + d, p.2)).map (·.1) = (pk.map (·.1)).map (· + d) := by
        rw [List.map_map, List.map_map]; rfl
      rw [e2, isort_add, isort_add]
      simp only [map_add_inj]

/-- the seed derived for the translated reference from the translated primary peak is the translated seed, with the
    same derivation status -/
theorem deriveSeed_shift (c : SecCfg) (r q : OMap) (s : PSeed) (d : Int) (hid : r.id = s.refId)
    (h0 : 0 < s.primary + q.length + c.margin) (hd : 0 < s.primary + d + q.length + c.margin) :
    deriveSeed c [shiftRef d r] q (shiftPSeed d s) = (deriveSeed c [r] q s).map (fun p => (shiftSeed d p.1, p.2)) := by
  obtain ⟨rid, rev, prim, cap⟩ := s
  exact deriveSeed_shift_aux c r q rid rev prim cap d hid h0 hd

end Coma.Proofs
