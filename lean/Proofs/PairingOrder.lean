import Props.Defs
namespace Coma.Proofs
open Coma Coma.Spec

theorem engine_order_preserving (md : Int) (ref qry : OMap) (start stop : Int) (rev : Bool) (it : Int)
    (hr : Ascending ref.positions) (hq : Ascending qry.positions) (p1 p2 : Pr)
    (h1 : APos.pair p1 ∈ engineAlign md ref qry start stop rev it)
    (h2 : APos.pair p2 ∈ engineAlign md ref qry start stop rev it)
    (hlt : p1.r.pos < p2.r.pos) : p1.q.pos ≤ p2.q.pos := by
  sorry

theorem engine_mutual_nearest (md : Int) (ref qry : OMap) (start stop : Int) (rev : Bool) (it : Int)
    (hr : Ascending ref.positions) (hq : Ascending qry.positions) (r q : Lbl)
    (hrw : r ∈ refWindow md ref start stop) (hql : q ∈ qry.labels rev)
    (hd : (offset start r q).natAbs ≤ md)
    (hnr : ∀ r' ∈ refWindow md ref start stop, r' ≠ r → (offset start r q).natAbs < (offset start r' q).natAbs)
    (hnq : ∀ q' ∈ qry.labels rev, q' ≠ q → (offset start r q).natAbs < (offset start r q').natAbs) :
    ∃ p, APos.pair p ∈ engineAlign md ref qry start stop rev it ∧ p.r = r ∧ p.q = q := by
  sorry

end Coma.Proofs
