import Props.Defs
namespace Coma.Proofs.PO
open Coma Coma.Spec

/-! ## Generic lemmas: `insertByKey`, `isort`, `groupAdj`, `minByFrom` -/
section Generic
variable {α : Type} (key : α → Int)

theorem insertByKey_perm (a : α) (l : List α) : (insertByKey key a l).Perm (a :: l) := by
  induction l with
  | nil => exact List.Perm.refl _
  | cons b bs ih =>
    simp only [insertByKey]
    split
    · exact List.Perm.refl _
    · exact (List.Perm.cons b ih).trans (List.Perm.swap a b bs)

theorem isort_perm (l : List α) : (isort key l).Perm l := by
  induction l with
  | nil => exact List.Perm.refl _
  | cons x xs ih => exact (insertByKey_perm key x _).trans (List.Perm.cons x ih)

theorem mem_isort {a : α} {l : List α} : a ∈ isort key l ↔ a ∈ l := (isort_perm key l).mem_iff

theorem insertByKey_sorted (a : α) (l : List α) (h : l.Pairwise (fun a b => key a ≤ key b)) :
    (insertByKey key a l).Pairwise (fun a b => key a ≤ key b) := by
  induction l with
  | nil => simp [insertByKey]
  | cons b bs ih =>
    simp only [insertByKey]
    rw [List.pairwise_cons] at h
    split
    · rename_i hab
      refine List.pairwise_cons.2 ⟨?_, List.pairwise_cons.2 h⟩
      intro c hc
      rcases List.mem_cons.1 hc with rfl | hc
      · exact hab
      · exact Int.le_trans hab (h.1 c hc)
    · rename_i hab
      refine List.pairwise_cons.2 ⟨?_, ih h.2⟩
      intro c hc
      rcases List.mem_cons.1 ((insertByKey_perm key a bs).mem_iff.1 hc) with rfl | hc
      · omega
      · exact h.1 c hc

theorem isort_sorted (l : List α) : (isort key l).Pairwise (fun a b => key a ≤ key b) := by
  induction l with
  | nil => exact List.Pairwise.nil
  | cons x xs ih => exact insertByKey_sorted key x _ ih

/-- stability of insertion: the subsequence of elements with a given key is unchanged -/
theorem filter_insertByKey (k : Int) (a : α) (l : List α) :
    (insertByKey key a l).filter (fun y => decide (key y = k)) =
      (a :: l).filter (fun y => decide (key y = k)) := by
  induction l with
  | nil => rfl
  | cons b bs ih =>
    simp only [insertByKey]
    split
    · rfl
    · rename_i hab
      rw [List.filter_cons, ih]
      by_cases h1 : key a = k <;> by_cases h2 : key b = k <;> simp [h1, h2]
      omega

/-- `isort` is stable -/
theorem filter_isort (k : Int) (l : List α) :
    (isort key l).filter (fun y => decide (key y = k)) = l.filter (fun y => decide (key y = k)) := by
  induction l with
  | nil => rfl
  | cons x xs ih =>
    show (insertByKey key x (isort key xs)).filter _ = _
    rw [filter_insertByKey, List.filter_cons, List.filter_cons, ih]

/-- `groupAdj` is `itertools.groupby`: first run, then the groups of the rest -/
theorem groupAdj_cons (x : α) (xs : List α) :
    groupAdj key (x :: xs) =
      (x :: xs.takeWhile (fun y => decide (key y = key x))) ::
        groupAdj key (xs.dropWhile (fun y => decide (key y = key x))) := by
  induction xs generalizing x with
  | nil => rfl
  | cons y ys ih =>
    have e : groupAdj key (x :: y :: ys) =
      (match groupAdj key (y :: ys) with
        | (y' :: g) :: gs => if key x = key y' then (x :: y' :: g) :: gs else [x] :: (y' :: g) :: gs
        | _ => [[x]]) := rfl
    rw [e, ih y]
    simp only [List.takeWhile_cons, List.dropWhile_cons]
    by_cases h : key x = key y
    · rw [h]; simp
    · have h' : ¬ key y = key x := fun e => h e.symm
      simp [h, h', ih y]

/-- in a key-sorted list whose keys are all `≥ k`, the run of `k`s is a prefix -/
theorem sorted_span (k : Int) (xs : List α) (hk : ∀ y ∈ xs, k ≤ key y)
    (hs : xs.Pairwise (fun a b => key a ≤ key b)) :
    (∀ a ∈ xs.takeWhile (fun y => decide (key y = k)), key a = k) ∧
    (∀ b ∈ xs.dropWhile (fun y => decide (key y = k)), k < key b) := by
  induction xs with
  | nil => simp
  | cons y ys ih =>
    rw [List.pairwise_cons] at hs
    have ih' := ih (fun z hz => hk z (List.mem_cons_of_mem _ hz)) hs.2
    by_cases h : key y = k
    · simp only [List.takeWhile_cons, List.dropWhile_cons, h, decide_true, if_true]
      refine ⟨?_, ih'.2⟩
      intro a ha
      rcases List.mem_cons.1 ha with rfl | ha
      · exact h
      · exact ih'.1 a ha
    · have hlt : k < key y := by
        have := hk y List.mem_cons_self
        omega
      simp only [List.takeWhile_cons, List.dropWhile_cons, h, decide_false]
      refine ⟨by simp, ?_⟩
      intro b hb
      rcases List.mem_cons.1 hb with rfl | hb
      · exact hlt
      · have := hs.1 b hb
        omega

/-- the groups of a key-sorted list are exactly the non-empty key classes, in list order -/
theorem mem_groupAdj_sorted_aux : ∀ (n : Nat) (L : List α), L.length ≤ n →
    L.Pairwise (fun a b => key a ≤ key b) →
    ∀ g, (g ∈ groupAdj key L ↔ ∃ x ∈ L, g = L.filter (fun y => decide (key y = key x))) := by
  intro n
  induction n with
  | zero =>
    intro L hL _ g
    have : L = [] := List.eq_nil_of_length_eq_zero (by omega)
    subst this
    simp [groupAdj]
  | succ n ih =>
    intro L hL hs g
    cases L with
    | nil => simp [groupAdj]
    | cons x xs =>
      rw [List.pairwise_cons] at hs
      obtain ⟨hA, hB⟩ := sorted_span key (key x) xs hs.1 hs.2
      have hAB := @List.takeWhile_append_dropWhile _ (fun y => decide (key y = key x)) xs
      have hBs : (xs.dropWhile (fun y => decide (key y = key x))).Pairwise
          (fun a b => key a ≤ key b) := hs.2.sublist (List.dropWhile_sublist _)
      have hBl : (xs.dropWhile (fun y => decide (key y = key x))).length ≤ n := by
        have := (List.dropWhile_sublist (fun y => decide (key y = key x)) (l := xs)).length_le
        simp only [List.length_cons] at hL
        omega
      rw [groupAdj_cons, List.mem_cons, ih _ hBl hBs g]
      generalize xs.takeWhile (fun y => decide (key y = key x)) = A at *
      generalize xs.dropWhile (fun y => decide (key y = key x)) = B at *
      subst hAB
      have F1 : (x :: (A ++ B)).filter (fun y => decide (key y = key x)) = x :: A := by
        rw [List.filter_cons, List.filter_append]
        have h1 : A.filter (fun y => decide (key y = key x)) = A :=
          List.filter_eq_self.2 (fun a ha => by simp [hA a ha])
        have h2 : B.filter (fun y => decide (key y = key x)) = [] :=
          List.filter_eq_nil_iff.2 (fun b hb => by have := hB b hb; simp; omega)
        simp [h1, h2]
      have F2 : ∀ y ∈ B, (x :: (A ++ B)).filter (fun z => decide (key z = key y)) =
          B.filter (fun z => decide (key z = key y)) := by
        intro y hy
        have hy' := hB y hy
        rw [List.filter_cons, List.filter_append]
        have h1 : A.filter (fun z => decide (key z = key y)) = [] :=
          List.filter_eq_nil_iff.2 (fun a ha => by have := hA a ha; simp; omega)
        have h2 : ¬ key x = key y := by omega
        simp [h1, h2]
      constructor
      · rintro (rfl | ⟨y, hy, rfl⟩)
        · exact ⟨x, List.mem_cons_self, F1.symm⟩
        · exact ⟨y, List.mem_cons_of_mem _ (List.mem_append_right _ hy), (F2 y hy).symm⟩
      · rintro ⟨z, hz, rfl⟩
        rcases List.mem_cons.1 hz with rfl | hz
        · exact Or.inl F1
        · rcases List.mem_append.1 hz with hz | hz
          · rw [hA z hz]
            exact Or.inl F1
          · exact Or.inr ⟨z, hz, F2 z hz⟩

theorem mem_groupAdj_sorted {L : List α} (hs : L.Pairwise (fun a b => key a ≤ key b))
    (g : List α) :
    g ∈ groupAdj key L ↔ ∃ x ∈ L, g = L.filter (fun y => decide (key y = key x)) :=
  mem_groupAdj_sorted_aux key L.length L (Nat.le_refl _) hs g

end Generic

section MinBy
variable {α : Type} (f : α → Int)

theorem minByFrom_le_seed (a : α) (l : List α) : f (minByFrom f a l) ≤ f a := by
  induction l generalizing a with
  | nil => exact Int.le_refl _
  | cons b bs ih =>
    simp only [minByFrom]
    split
    · have := ih b
      omega
    · exact ih a

/-- `minByFrom` returns the FIRST minimum: strictly smaller than everything before it,
    at most everything after it -/
theorem minByFrom_split (a : α) (l : List α) :
    ∃ l1 l2, a :: l = l1 ++ minByFrom f a l :: l2 ∧
      (∀ c ∈ l1, f (minByFrom f a l) < f c) ∧ (∀ c ∈ l2, f (minByFrom f a l) ≤ f c) := by
  induction l generalizing a with
  | nil => exact ⟨[], [], rfl, by simp, by simp⟩
  | cons b bs ih =>
    simp only [minByFrom]
    split
    · rename_i h
      obtain ⟨l1, l2, e, h1, h2⟩ := ih b
      have hle := minByFrom_le_seed f b bs
      refine ⟨a :: l1, l2, by rw [e]; rfl, ?_, h2⟩
      intro c hc
      rcases List.mem_cons.1 hc with rfl | hc
      · omega
      · exact h1 c hc
    · rename_i h
      obtain ⟨l1, l2, e, h1, h2⟩ := ih a
      generalize minByFrom f a bs = m at *
      cases l1 with
      | nil =>
        simp only [List.nil_append, List.cons.injEq] at e
        obtain ⟨rfl, rfl⟩ := e
        refine ⟨[], b :: bs, rfl, by simp, ?_⟩
        intro c hc
        rcases List.mem_cons.1 hc with rfl | hc
        · omega
        · exact h2 c hc
      | cons a' l1' =>
        simp only [List.cons_append, List.cons.injEq] at e
        obtain ⟨rfl, rfl⟩ := e
        refine ⟨a :: b :: l1', l2, rfl, ?_, h2⟩
        have ha := h1 a List.mem_cons_self
        intro c hc
        rcases List.mem_cons.1 hc with rfl | hc
        · exact ha
        · rcases List.mem_cons.1 hc with rfl | hc
          · omega
          · exact h1 c (List.mem_cons_of_mem _ hc)

theorem minBy?_split {g : List α} {p : α} (h : minBy? f g = some p) :
    ∃ l1 l2, g = l1 ++ p :: l2 ∧ (∀ c ∈ l1, f p < f c) ∧ (∀ c ∈ l2, f p ≤ f c) := by
  cases g with
  | nil => simp [minBy?] at h
  | cons a l =>
    simp only [minBy?, Option.some.injEq] at h
    subst h
    exact minByFrom_split f a l

/-- a unique strict minimum is what `minBy?` returns -/
theorem minBy?_of_unique_min {g : List α} {c : α} (hc : c ∈ g)
    (hmin : ∀ c' ∈ g, c' ≠ c → f c < f c') : minBy? f g = some c := by
  cases g with
  | nil => simp at hc
  | cons a l =>
    obtain ⟨l1, l2, e, h1, h2⟩ := minByFrom_split f a l
    simp only [minBy?, Option.some.injEq]
    generalize minByFrom f a l = m at *
    apply Classical.byContradiction
    intro hne
    have hm : m ∈ a :: l := by rw [e]; simp
    have hlt := hmin m hm hne
    rw [e] at hc
    rcases List.mem_append.1 hc with hc | hc
    · have := h1 c hc
      omega
    · rcases List.mem_cons.1 hc with rfl | hc
      · exact hne rfl
      · have := h2 c hc
        omega

end MinBy

/-! ## `dedupByKey` -/
section Dedup
variable (key : Pr → Int)

/-- a survivor of `dedupByKey` is the FIRST minimum-distance element of its key class -/
theorem dedupByKey_firstMin {ps : List Pr} {p : Pr} (hp : p ∈ dedupByKey key ps) :
    ∃ l1 l2, ps = l1 ++ p :: l2 ∧ (∀ c ∈ l1, key c = key p → p.dist < c.dist) ∧
      (∀ c ∈ l2, key c = key p → p.dist ≤ c.dist) := by
  unfold dedupByKey at hp
  obtain ⟨g, hg, hmin⟩ := List.mem_filterMap.1 hp
  obtain ⟨x, hx, rfl⟩ := (mem_groupAdj_sorted key (isort_sorted key ps) g).1 hg
  rw [filter_isort] at hmin
  obtain ⟨l1, l2, e, h1, h2⟩ := minBy?_split Pr.dist hmin
  have hpk : key p = key x := by
    have : p ∈ ps.filter (fun y => decide (key y = key x)) := by rw [e]; simp
    simpa using (List.mem_filter.1 this).2
  rw [← hpk] at e
  obtain ⟨m1, m2', rfl, e1, e2⟩ := List.filter_eq_append_iff.1 e
  obtain ⟨n1, n2, rfl, hn1, _, e3⟩ := List.filter_eq_cons_iff.1 e2
  refine ⟨m1 ++ n1, n2, by simp, ?_, ?_⟩
  · intro c hc hk
    rcases List.mem_append.1 hc with hc | hc
    · apply h1
      rw [← e1]
      exact List.mem_filter.2 ⟨hc, by simp [hk]⟩
    · exact absurd (by simp [hk]) (hn1 c hc)
  · intro c hc hk
    apply h2
    rw [← e3]
    exact List.mem_filter.2 ⟨hc, by simp [hk]⟩

theorem dedupByKey_subset {ps : List Pr} {p : Pr} (hp : p ∈ dedupByKey key ps) : p ∈ ps := by
  obtain ⟨l1, l2, rfl, _, _⟩ := dedupByKey_firstMin key hp
  simp

/-- minimality of a survivor, strict against anything generated strictly earlier
    (`g` is any quantity along which `ps` is non-decreasing) -/
theorem dedupByKey_spec {ps : List Pr} {p : Pr} (g : Pr → Int)
    (hs : ps.Pairwise (fun a b => g a ≤ g b)) (hp : p ∈ dedupByKey key ps) :
    ∀ c ∈ ps, key c = key p → p.dist ≤ c.dist ∧ (g c < g p → p.dist < c.dist) := by
  obtain ⟨l1, l2, rfl, h1, h2⟩ := dedupByKey_firstMin key hp
  intro c hc hk
  have hs' := (List.pairwise_append.1 hs).2.1
  rw [List.pairwise_cons] at hs'
  rcases List.mem_append.1 hc with hc | hc
  · have := h1 c hc hk
    exact ⟨by omega, fun _ => this⟩
  · rcases List.mem_cons.1 hc with rfl | hc
    · exact ⟨Int.le_refl _, fun h => by omega⟩
    · have := hs'.1 c hc
      exact ⟨h2 c hc hk, fun h => by omega⟩

/-- the unique strict minimum of its key class survives `dedupByKey` -/
theorem mem_dedupByKey_of_unique_min {ps : List Pr} {c : Pr} (hc : c ∈ ps)
    (hmin : ∀ c' ∈ ps, key c' = key c → c' ≠ c → c.dist < c'.dist) :
    c ∈ dedupByKey key ps := by
  unfold dedupByKey
  refine List.mem_filterMap.2 ⟨(isort key ps).filter (fun y => decide (key y = key c)), ?_, ?_⟩
  · exact (mem_groupAdj_sorted key (isort_sorted key ps) _).2 ⟨c, (mem_isort key).2 hc, rfl⟩
  · apply minBy?_of_unique_min
    · exact List.mem_filter.2 ⟨(mem_isort key).2 hc, by simp⟩
    · intro c' hc' hne
      obtain ⟨h1, h2⟩ := List.mem_filter.1 hc'
      exact hmin c' ((mem_isort key).1 h1) (by simpa using h2) hne

end Dedup

/-! ## Labels, windows, candidates -/
section Model

theorem inj_of_pairwise_ne {β : Type} {f : β → Int} {L : List β}
    (h : L.Pairwise (fun a b => f a ≠ f b)) : ∀ a ∈ L, ∀ b ∈ L, f a = f b → a = b := by
  induction h with
  | nil => simp
  | cons hx _ ih =>
    intro a ha b hb e
    rcases List.mem_cons.1 ha with ha' | ha' <;> rcases List.mem_cons.1 hb with hb' | hb'
    · rw [ha', hb']
    · subst ha'
      exact absurd e (hx b hb')
    · subst hb'
      exact absurd e.symm (hx a ha')
    · exact ih a ha' b hb' e

theorem labelsFwd_pos (i : Int) (ps : List Int) : (labelsFwd i ps).map Lbl.pos = ps := by
  induction ps generalizing i with
  | nil => rfl
  | cons p ps ih => simp [labelsFwd, ih]

theorem labelsFwd_site_ge (i : Int) (ps : List Int) : ∀ l ∈ labelsFwd i ps, i ≤ l.site := by
  induction ps generalizing i with
  | nil => simp [labelsFwd]
  | cons p ps ih =>
    intro l hl
    simp only [labelsFwd, List.mem_cons] at hl
    rcases hl with rfl | hl
    · exact Int.le_refl _
    · have := ih (i + 1) l hl
      omega

theorem labelsFwd_site_pairwise (i : Int) (ps : List Int) :
    (labelsFwd i ps).Pairwise (fun a b => a.site ≠ b.site) := by
  induction ps generalizing i with
  | nil => exact List.Pairwise.nil
  | cons p ps ih =>
    simp only [labelsFwd]
    refine List.pairwise_cons.2 ⟨?_, ih (i + 1)⟩
    intro l hl
    have := labelsFwd_site_ge (i + 1) ps l hl
    show i ≠ l.site
    omega

theorem labelsRev_pos (i e : Int) (ps : List Int) :
    (labelsRev i e ps).map Lbl.pos = ps.map (fun p => e - p) := by
  induction ps generalizing i with
  | nil => rfl
  | cons p ps ih => simp [labelsRev, ih]

theorem labelsRev_site_le (i e : Int) (ps : List Int) : ∀ l ∈ labelsRev i e ps, l.site ≤ i := by
  induction ps generalizing i with
  | nil => simp [labelsRev]
  | cons p ps ih =>
    intro l hl
    simp only [labelsRev, List.mem_cons] at hl
    rcases hl with rfl | hl
    · exact Int.le_refl _
    · have := ih (i - 1) l hl
      omega

theorem labelsRev_site_pairwise (i e : Int) (ps : List Int) :
    (labelsRev i e ps).Pairwise (fun a b => a.site ≠ b.site) := by
  induction ps generalizing i with
  | nil => exact List.Pairwise.nil
  | cons p ps ih =>
    simp only [labelsRev]
    refine List.pairwise_cons.2 ⟨?_, ih (i - 1)⟩
    intro l hl
    have := labelsRev_site_le (i - 1) e ps l hl
    show i ≠ l.site
    omega

theorem labels_site_pairwise (m : OMap) (rev : Bool) :
    (m.labels rev).Pairwise (fun a b => a.site ≠ b.site) := by
  unfold OMap.labels
  split
  · exact labelsRev_site_pairwise _ _ _
  · exact labelsFwd_site_pairwise _ _

theorem labels_pos_sorted (m : OMap) (rev : Bool) (h : Ascending m.positions) :
    (m.labels rev).Pairwise (fun a b => a.pos ≤ b.pos) := by
  have key : ∀ L : List Lbl, (L.map Lbl.pos).Pairwise (· ≤ ·) → L.Pairwise (fun a b => a.pos ≤ b.pos) :=
    fun L hL => List.pairwise_map.1 hL
  apply key
  unfold OMap.labels
  split
  · rw [labelsRev_pos, List.pairwise_map, List.pairwise_reverse]
    exact List.Pairwise.imp (fun {a b} (hab : a ≤ b) => by omega) h
  · rw [labelsFwd_pos]
    exact h

theorem mem_dropWhile_sorted {xs : List Lbl} (hs : xs.Pairwise (fun a b => a.pos ≤ b.pos))
    (lo : Int) (l : Lbl) :
    l ∈ xs.dropWhile (fun x => decide (x.pos < lo)) ↔ l ∈ xs ∧ lo ≤ l.pos := by
  induction xs with
  | nil => simp
  | cons x xs ih =>
    rw [List.pairwise_cons] at hs
    rw [List.dropWhile_cons]
    by_cases h : x.pos < lo
    · simp only [h, decide_true, if_true, ih hs.2, List.mem_cons]
      constructor
      · rintro ⟨h1, h2⟩
        exact ⟨Or.inr h1, h2⟩
      · rintro ⟨rfl | h1, h2⟩
        · omega
        · exact ⟨h1, h2⟩
    · simp only [h, decide_false, Bool.false_eq_true, if_false, List.mem_cons]
      constructor
      · rintro (rfl | h1)
        · exact ⟨Or.inl rfl, by omega⟩
        · have := hs.1 l h1
          exact ⟨Or.inr h1, by omega⟩
      · rintro ⟨h1, _⟩
        exact h1

theorem mem_takeWhile_sorted {xs : List Lbl} (hs : xs.Pairwise (fun a b => a.pos ≤ b.pos))
    (hi : Int) (l : Lbl) :
    l ∈ xs.takeWhile (fun x => decide (x.pos ≤ hi)) ↔ l ∈ xs ∧ l.pos ≤ hi := by
  induction xs with
  | nil => simp
  | cons x xs ih =>
    rw [List.pairwise_cons] at hs
    rw [List.takeWhile_cons]
    by_cases h : x.pos ≤ hi
    · simp only [h, decide_true, if_true, List.mem_cons, ih hs.2]
      constructor
      · rintro (rfl | ⟨h1, h2⟩)
        · exact ⟨Or.inl rfl, h⟩
        · exact ⟨Or.inr h1, h2⟩
      · rintro ⟨rfl | h1, h2⟩
        · exact Or.inl rfl
        · exact Or.inr ⟨h1, h2⟩
    · simp only [h, decide_false, List.mem_cons]
      constructor
      · intro h1
        simp at h1
      · rintro ⟨rfl | h1, h2⟩
        · omega
        · have := hs.1 l h1
          omega

theorem window_sublist (lo hi : Int) (xs : List Lbl) : (window lo hi xs).Sublist xs :=
  (List.takeWhile_sublist _).trans (List.dropWhile_sublist _)

theorem mem_window {xs : List Lbl} (hs : xs.Pairwise (fun a b => a.pos ≤ b.pos))
    (lo hi : Int) (l : Lbl) :
    l ∈ window lo hi xs ↔ l ∈ xs ∧ lo ≤ l.pos ∧ l.pos ≤ hi := by
  unfold window
  rw [mem_takeWhile_sorted (hs.sublist (List.dropWhile_sublist _)), mem_dropWhile_sorted hs,
    and_assoc]

theorem mem_candidates {md start it : Int} {refs qs : List Lbl}
    (hq : qs.Pairwise (fun a b => a.pos ≤ b.pos)) (c : Pr) :
    c ∈ candidates md start it refs qs ↔
      c.r ∈ refs ∧ c.q ∈ qs ∧ c.shift = c.q.pos - (c.r.pos - start) ∧
        -md ≤ c.shift ∧ c.shift ≤ md ∧ c.src = it := by
  unfold candidates
  simp only [List.mem_flatMap, List.mem_map, mem_window hq]
  constructor
  · rintro ⟨r, hr, q, ⟨hq1, h2, h3⟩, rfl⟩
    refine ⟨hr, hq1, rfl, ?_, ?_, rfl⟩ <;> simp only <;> omega
  · rintro ⟨h1, h2, h3, h4, h5, h6⟩
    refine ⟨c.r, h1, c.q, ⟨h2, by omega, by omega⟩, ?_⟩
    cases c
    simp_all

theorem candidates_pairwise {md start it : Int} {refs qs : List Lbl}
    (hr : refs.Pairwise (fun a b => a.pos ≤ b.pos)) :
    (candidates md start it refs qs).Pairwise (fun a b => a.r.pos ≤ b.r.pos) := by
  unfold candidates
  rw [List.pairwise_flatMap]
  constructor
  · intro r _
    rw [List.pairwise_map]
    exact List.pairwise_of_forall (fun _ _ => Int.le_refl _)
  · refine List.Pairwise.imp ?_ hr
    intro a b hab x hx y hy
    obtain ⟨_, _, rfl⟩ := List.mem_map.1 hx
    obtain ⟨_, _, rfl⟩ := List.mem_map.1 hy
    exact hab

theorem pair_mem_engineAlign (md : Int) (ref qry : OMap) (start stop : Int) (rev : Bool)
    (it : Int) (p : Pr) :
    APos.pair p ∈ engineAlign md ref qry start stop rev it ↔
      p ∈ dedup (candidates md start it (refWindow md ref start stop) (qry.labels rev)) := by
  unfold engineAlign
  simp [mem_isort, unpaired]

end Model

/-! ## The two C12 theorems -/

theorem engine_order_preserving (md : Int) (ref qry : OMap) (start stop : Int) (rev : Bool) (it : Int)
    (hr : Ascending ref.positions) (hq : Ascending qry.positions) (p1 p2 : Pr)
    (h1 : APos.pair p1 ∈ engineAlign md ref qry start stop rev it)
    (h2 : APos.pair p2 ∈ engineAlign md ref qry start stop rev it)
    (hlt : p1.r.pos < p2.r.pos) : p1.q.pos ≤ p2.q.pos := by
  rw [pair_mem_engineAlign] at h1 h2
  have hqs := labels_pos_sorted qry rev hq
  have hrs : (refWindow md ref start stop).Pairwise (fun a b => a.pos ≤ b.pos) :=
    (labels_pos_sorted ref false hr).sublist (window_sublist _ _ _)
  generalize refWindow md ref start stop = refs at *
  generalize qry.labels rev = qs at *
  have hcp := candidates_pairwise (md := md) (start := start) (it := it) (qs := qs) hrs
  unfold dedup at h1 h2
  have s1 := dedupByKey_subset _ h1
  have s2 := dedupByKey_subset _ h2
  obtain ⟨r1in, q1in, sh1, lo1, hi1, _⟩ := (mem_candidates hqs p1).1 (dedupByKey_subset _ s1)
  obtain ⟨r2in, q2in, sh2, lo2, hi2, _⟩ := (mem_candidates hqs p2).1 (dedupByKey_subset _ s2)
  have sp1 := dedupByKey_spec (fun p => p.q.site) (fun p => p.r.pos) hcp s1
  have sp2 := dedupByKey_spec (fun p => p.q.site) (fun p => p.r.pos) hcp s2
  apply Classical.byContradiction
  intro hcon
  have hcon : p2.q.pos < p1.q.pos := by omega
  by_cases hc : p2.r.pos - start ≤ p1.q.pos
  · -- (r2, q1) is a candidate strictly closer to q1 than (r1, q1)
    have hcm : ({ r := p2.r, q := p1.q, shift := p1.q.pos - (p2.r.pos - start), src := it } : Pr) ∈
        candidates md start it refs qs :=
      (mem_candidates hqs _).2 ⟨r2in, q1in, rfl, by simp only; omega, by simp only; omega, rfl⟩
    have a1 := (sp1 _ hcm rfl).1
    simp only [Pr.dist] at a1
    omega
  · have hcm : ({ r := p2.r, q := p1.q, shift := p1.q.pos - (p2.r.pos - start), src := it } : Pr) ∈
        candidates md start it refs qs :=
      (mem_candidates hqs _).2 ⟨r2in, q1in, rfl, by simp only; omega, by simp only; omega, rfl⟩
    have a1 := (sp1 _ hcm rfl).1
    have a2 : p2.dist < ((p2.q.pos - (p1.r.pos - start)).natAbs : Int) := by
      by_cases hc' : -md ≤ p2.q.pos - (p1.r.pos - start) ∧ p2.q.pos - (p1.r.pos - start) ≤ md
      · have hcm' : ({ r := p1.r, q := p2.q, shift := p2.q.pos - (p1.r.pos - start), src := it } : Pr) ∈
            candidates md start it refs qs :=
          (mem_candidates hqs _).2 ⟨r1in, q2in, rfl, hc'.1, hc'.2, rfl⟩
        exact (sp2 _ hcm' rfl).2 hlt
      · simp only [Pr.dist]
        omega
    simp only [Pr.dist] at a1 a2
    omega

theorem engine_mutual_nearest (md : Int) (ref qry : OMap) (start stop : Int) (rev : Bool) (it : Int)
    (hr : Ascending ref.positions) (hq : Ascending qry.positions) (r q : Lbl)
    (hrw : r ∈ refWindow md ref start stop) (hql : q ∈ qry.labels rev)
    (hd : (offset start r q).natAbs ≤ md)
    (hnr : ∀ r' ∈ refWindow md ref start stop, r' ≠ r → (offset start r q).natAbs < (offset start r' q).natAbs)
    (hnq : ∀ q' ∈ qry.labels rev, q' ≠ q → (offset start r q).natAbs < (offset start r q').natAbs) :
    ∃ p, APos.pair p ∈ engineAlign md ref qry start stop rev it ∧ p.r = r ∧ p.q = q := by
  have _ := hr  -- not needed: only sublist-ness of the reference window is used
  refine ⟨{ r := r, q := q, shift := offset start r q, src := it }, ?_, rfl, rfl⟩
  rw [pair_mem_engineAlign]
  have hqs := labels_pos_sorted qry rev hq
  have hqinj := inj_of_pairwise_ne (labels_site_pairwise qry rev)
  have hrinj : ∀ a ∈ refWindow md ref start stop, ∀ b ∈ refWindow md ref start stop,
      a.site = b.site → a = b :=
    inj_of_pairwise_ne ((labels_site_pairwise ref false).sublist (window_sublist _ _ _))
  generalize refWindow md ref start stop = refs at *
  generalize qry.labels rev = qs at *
  have hcm : ({ r := r, q := q, shift := offset start r q, src := it } : Pr) ∈
      candidates md start it refs qs :=
    (mem_candidates hqs _).2 ⟨hrw, hql, rfl, by simp only; omega, by simp only; omega, rfl⟩
  unfold dedup
  have hs1 : ({ r := r, q := q, shift := offset start r q, src := it } : Pr) ∈
      dedupByKey (fun p => p.q.site) (candidates md start it refs qs) := by
    apply mem_dedupByKey_of_unique_min _ hcm
    intro c' hc' hk hne
    obtain ⟨r'in, q'in, sh', _, _, src'⟩ := (mem_candidates hqs c').1 hc'
    have hq' : c'.q = q := hqinj _ q'in _ hql hk
    have hr' : c'.r ≠ r := by
      intro e
      apply hne
      cases c'
      simp only [offset] at *
      simp_all
    have := hnr _ r'in hr'
    simp only [Pr.dist, sh', hq']
    simp only [offset] at this ⊢
    omega
  apply mem_dedupByKey_of_unique_min _ hs1
  intro c' hc' hk hne
  obtain ⟨r'in, q'in, sh', _, _, src'⟩ := (mem_candidates hqs c').1 (dedupByKey_subset _ hc')
  have hr' : c'.r = r := hrinj _ r'in _ hrw hk
  have hq' : c'.q ≠ q := by
    intro e
    apply hne
    cases c'
    simp only [offset] at *
    simp_all
  have := hnq _ q'in hq'
  simp only [Pr.dist, sh', hr']
  simp only [offset] at this ⊢
  omega

end Coma.Proofs.PO
