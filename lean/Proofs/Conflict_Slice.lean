import Proofs.Conflict_Lists
namespace Coma.Proofs.Conflict
open Coma Coma.Spec

/-! ### comparisons -/

theorem lessOnBoth_irrefl (c : Pr) : c.lessOnBoth c = false := by
  simp [Pr.lessOnBoth]

theorem lessOnBoth_iff {a o : Pr} : a.lessOnBoth o = true ↔ a.q.pos < o.q.pos ∧ a.r.pos < o.r.pos := by
  simp [Pr.lessOnBoth]

theorem leqAny_self (c : Pr) : c.leqAny c = true := by
  simp [Pr.leqAny]

theorem leqAny_of_lt {a o : Pr} (h : a.r.pos < o.r.pos) : a.leqAny o = true := by
  simp [Pr.leqAny, h]

theorem leqAny_false {a o : Pr} (h : a.leqAny o = false) :
    o.q.pos ≤ a.q.pos ∧ o.r.pos ≤ a.r.pos ∧ a.q ≠ o.q ∧ a.r ≠ o.r := by
  simp only [Pr.leqAny, Bool.or_eq_false_iff, decide_eq_false_iff_not, Int.not_lt] at h
  exact ⟨h.1.1.1, h.1.1.2, h.1.2, h.2⟩

/-! ### first / last pair -/

theorem mem_pairs {S : Seg} {p : Pr} : p ∈ S.pairs ↔ APos.pair p ∈ S.items := by
  unfold Seg.pairs
  rw [List.mem_filterMap]
  constructor
  · rintro ⟨a, ha, h⟩
    cases a <;> simp [APos.pair?] at h
    subst h; exact ha
  · intro h; exact ⟨_, h, rfl⟩

theorem mem_pairsOf {xs : List APos} {p : Pr} : p ∈ pairsOf xs ↔ APos.pair p ∈ xs :=
  mem_pairs (S := ⟨0, xs⟩)

theorem pairs_eq_pairsOf (S : Seg) : S.pairs = pairsOf S.items := rfl

theorem pairsOf_append (a b : List APos) : pairsOf (a ++ b) = pairsOf a ++ pairsOf b :=
  List.filterMap_append

theorem pairsOf_eq_nil {t : List APos} (h : ∀ x ∈ t, x.isPair = false) : pairsOf t = [] := by
  unfold pairsOf
  rw [List.filterMap_eq_nil_iff]
  intro a ha
  have := h a ha
  cases a <;> simp_all [APos.isPair, APos.pair?]

theorem pairs_nil_of_items_nil {S : Seg} (h : S.items = []) : S.pairs = [] := by
  simp [Seg.pairs, h]

theorem last_pair {S : Seg} {e : Pr} (h : S.items.getLast? = some (.pair e)) :
    S.items ≠ [] ∧ S.pairs.getLast? = some e ∧ S.endPos = .ok (.pr e) := by
  obtain ⟨ys, hys⟩ := List.getLast?_eq_some_iff.mp h
  have hne : S.items ≠ [] := by rw [hys]; simp
  have hp : S.pairs.getLast? = some e := by
    unfold Seg.pairs
    rw [hys, List.filterMap_append]
    simp [APos.pair?]
  refine ⟨hne, hp, ?_⟩
  unfold Seg.endPos
  rw [if_neg (by simpa using hne), hp]

theorem first_pair {S : Seg} {c : Pr} {tl : List APos} (h : S.items = .pair c :: tl) :
    S.items ≠ [] ∧ S.pairs.head? = some c ∧ S.startPos = .ok (.pr c) := by
  have hne : S.items ≠ [] := by rw [h]; simp
  have hp : S.pairs = c :: pairsOf tl := by
    unfold Seg.pairs
    rw [h]; rfl
  refine ⟨hne, by rw [hp]; rfl, ?_⟩
  unfold Seg.startPos
  rw [if_neg (by simpa using hne), hp]

theorem leftOK_last {L : Seg} (hL : LeftOK L) (hne : L.items ≠ []) :
    ∃ e, L.items.getLast? = some (.pair e) := by
  rcases hL.last with h | h
  · exact absurd h hne
  · exact h

theorem rightOK_first {R : Seg} (hR : RightOK R) (hne : R.items ≠ []) :
    ∃ c tl, R.items = .pair c :: tl := by
  rcases hR.first with h | ⟨p, h⟩
  · exact absurd h hne
  · obtain ⟨ys, hys⟩ := List.head?_eq_some_iff.mp h
    exact ⟨p, ys, hys⟩

/-- every pair of a segment with ascending pairs is below its last pair -/
theorem pairs_le_last {S : Seg} {e : Pr} (ha : PairsAscending S.items)
    (he : S.pairs.getLast? = some e) :
    ∀ p ∈ S.pairs, p = e ∨ (p.r.pos < e.r.pos ∧ p.q.pos < e.q.pos) :=
  pairwise_le_last ha he

theorem pairs_ge_first {S : Seg} {c : Pr} (ha : PairsAscending S.items)
    (hc : S.pairs.head? = some c) :
    ∀ p ∈ S.pairs, p = c ∨ (c.r.pos < p.r.pos ∧ c.q.pos < p.q.pos) :=
  pairwise_ge_head ha hc

theorem pairs_leqAny_last {S : Seg} {e : Pr} (ha : PairsAscending S.items)
    (he : S.pairs.getLast? = some e) : ∀ p ∈ S.pairs, p.leqAny e = true := by
  intro p hp
  rcases pairs_le_last ha he p hp with rfl | h
  · exact leqAny_self _
  · exact leqAny_of_lt h.1

/-! ### `trimEnd` -/

theorem trimEnd_nil (e : Pr) : trimEnd e [] = .ok [] := rfl

/-- nothing is popped when the last element is a pair -/
theorem trimEnd_last_pair (e : Pr) {xs : List APos} {p : Pr} (h : xs.getLast? = some (.pair p)) :
    trimEnd e xs = .ok xs := by
  obtain ⟨ys, rfl⟩ := List.getLast?_eq_some_iff.mp h
  unfold trimEnd
  simp only [List.reverse_append, List.reverse_cons, List.reverse_nil, List.nil_append,
    List.cons_append]
  rw [List.dropWhile_cons_of_neg (by simp [APos.isPair])]
  simp

/-- a list that starts with a pair never runs empty; what is popped is unpaired -/
theorem trimEnd_head_pair (e : Pr) (p : Pr) (xs : List APos) :
    ∃ c t, trimEnd e (.pair p :: xs) = .ok c ∧ .pair p :: xs = c ++ t ∧
      ∀ x ∈ t, x.isPair = false := by
  let q : APos → Bool := fun a => !a.isPair && !a.leqAny e
  have hne : ((APos.pair p :: xs).reverse.dropWhile q) ≠ [] :=
    dropWhile_ne_nil_of_mem (x := .pair p) (by simp) (by simp [q, APos.isPair])
  refine ⟨((APos.pair p :: xs).reverse.dropWhile q).reverse,
    ((APos.pair p :: xs).reverse.takeWhile q).reverse, ?_, ?_, ?_⟩
  · rfl
  · rw [← List.reverse_append, List.takeWhile_append_dropWhile, List.reverse_reverse]
  · intro x hx
    have := mem_takeWhile_imp (List.mem_reverse.mp hx)
    simp only [q, Bool.and_eq_true, Bool.not_eq_true'] at this
    exact this.1

/-! ### `slice` -/

theorem slice_empty {S : Seg} (h : S.items = []) (a b : SP) : S.slice a b = .ok ⟨S.peak, []⟩ := by
  unfold Seg.slice
  simp only [h, List.dropWhile_nil, List.takeWhile_nil, trimEnd_nil]
  rfl

/-- step 1: on a left segment ending in the pair `e`, the slice up to `e` only drops the
    leading part that is below `start` on both maps -/
theorem slice_left {L : Seg} {e : Pr} (ha : PairsAscending L.items)
    (he : L.items.getLast? = some (.pair e)) (start : SP) :
    L.slice start (.pr e) = .ok ⟨L.peak, L.items.dropWhile (fun p => p.lessOnBoth start.toPr)⟩ := by
  obtain ⟨hne, hp, _⟩ := last_pair he
  have hall := pairs_leqAny_last ha hp
  unfold Seg.slice
  have hsuf := List.dropWhile_suffix (l := L.items) (fun p => p.lessOnBoth start.toPr)
  generalize hA : L.items.dropWhile (fun p => p.lessOnBoth start.toPr) = A at hsuf
  have htw : A.takeWhile (fun p => !p.isPair || p.leqAny (SP.pr e).toPr) = A := by
    apply takeWhile_eq_self
    intro x hx
    cases x with
    | pair p =>
      have : p ∈ L.pairs := mem_pairs.mpr (hsuf.mem hx)
      simp [APos.isPair, APos.leqAny, SP.toPr, hall p this]
    | uref _ => simp [APos.isPair]
    | uqry _ _ => simp [APos.isPair]
  simp only [htw]
  have htr : trimEnd (SP.pr e).toPr A = .ok A := by
    by_cases hA0 : A = []
    · rw [hA0]; rfl
    · apply trimEnd_last_pair (p := e)
      rw [List.getLast?_eq_some_getLast hA0, hsuf.getLast hA0,
        ← List.getLast?_eq_some_getLast, he]
  rw [htr]; rfl

/-- step 2: on a right segment starting with the pair `c`, the slice from `c` is a prefix of
    the `takeWhile`, and what is missing from it is unpaired -/
theorem slice_right {R : Seg} {c : Pr} {tl : List APos} (hR : R.items = .pair c :: tl)
    (stop : SP) :
    ∃ Rc t, R.slice (.pr c) stop = .ok Rc ∧
      R.items.takeWhile (fun p => !p.isPair || p.leqAny stop.toPr) = Rc.items ++ t ∧
      ∀ x ∈ t, x.isPair = false := by
  unfold Seg.slice
  have hd : R.items.dropWhile (fun p => p.lessOnBoth (SP.pr c).toPr) = R.items := by
    rw [hR, List.dropWhile_cons_of_neg]
    simp [APos.lessOnBoth, SP.toPr, lessOnBoth_irrefl]
  simp only [hd]
  rw [hR, List.takeWhile_cons]
  split
  · obtain ⟨c', t, h1, h2, h3⟩ := trimEnd_head_pair stop.toPr c
      (tl.takeWhile (fun p => !p.isPair || p.leqAny stop.toPr))
    exact ⟨⟨R.peak, c'⟩, t, by rw [h1]; rfl, h2, h3⟩
  · exact ⟨⟨R.peak, []⟩, [], rfl, rfl, by simp⟩

end Coma.Proofs.Conflict
