import Props.Defs
import Proofs.Compose
import Proofs.Fields
import Proofs.SrcBlind
import Proofs.Indep
import Proofs.Modes
import Proofs.Select
import Proofs.SecondPass
import Proofs.Cigar
import Proofs.SitesValid

namespace Coma.Proofs.Total
open Coma Coma.Spec

theorem startPos_ok {S : Seg} (h : S.items = [] ∨ S.pairs ≠ []) : ∃ sp, S.startPos = .ok sp := by
  unfold Seg.startPos
  split
  · exact ⟨_, rfl⟩
  · rename_i he
    rcases h with h | h
    · exact absurd (List.isEmpty_iff.mpr h) he
    · cases hp : S.pairs with
      | nil => exact absurd hp h
      | cons p t => exact ⟨_, rfl⟩

theorem endPos_ok {S : Seg} (h : S.items = [] ∨ S.pairs ≠ []) : ∃ sp, S.endPos = .ok sp := by
  unfold Seg.endPos
  split
  · exact ⟨_, rfl⟩
  · rename_i he
    rcases h with h | h
    · exact absurd (List.isEmpty_iff.mpr h) he
    · cases hp : S.pairs.getLast? with
      | none => exact absurd (List.getLast?_eq_none_iff.mp hp) h
      | some p => exact ⟨_, rfl⟩

theorem slice_ok (S : Seg) (a b : SP) : ∃ c, S.slice a b = .ok c := ⟨_, rfl⟩

end Coma.Proofs.Total

namespace Coma.Proofs
open Coma Coma.Spec Coma.Proofs.Total

/-- after the `fix:` of the trailing-trim loop, one resolver step can only raise when a non-empty
    segment has no aligned pair (`alignedPositions[0]`) -/
theorem resolvePairB_total_of_pairs (P : Params) (L R : Seg)
    (hL : L.items = [] ∨ L.pairs ≠ []) (hR : R.items = [] ∨ R.pairs ≠ []) :
    ∃ l r b, resolvePairB P L R = .ok (l, r, b) := by
  obtain ⟨ss, hss⟩ := startPos_ok hL
  obtain ⟨se, hse⟩ := endPos_ok hL
  obtain ⟨os, hos⟩ := startPos_ok hR
  obtain ⟨oe, hoe⟩ := endPos_ok hR
  obtain ⟨ov, hov⟩ := Conflict.endOverlaps_ok hss hse hos hoe
  refine Conflict.resolvePairB_ok_of (Or.inr ⟨ov, hov, fun _ => ?_⟩)
  obtain ⟨Lc, hLc⟩ := slice_ok L os se
  obtain ⟨Rc, hRc⟩ := slice_ok R os se
  exact ⟨os, se, Lc, Rc, hos, hse, hLc, hRc⟩

/-- joining two candidate rows (that have pairs) never raises -/
theorem joinRows_total (P : Params) (a b : Row)
    (ha : a.pairs ≠ []) (hb : b.pairs ≠ [])
    (hsa : ∀ s, a.segments.head? = some s → s.items = [] ∨ s.pairs ≠ [])
    (hsb : ∀ s, b.segments.head? = some s → s.items = [] ∨ s.pairs ≠ []) :
    ∃ o, joinRows P a b = .ok o := by
  have segs_of : ∀ r : Row, r.pairs ≠ [] → ∃ s t, r.segments = s :: t := by
    intro r hr
    cases hs : r.segments with
    | nil => exact absurd (by simp [Row.pairs, hs]) hr
    | cons s t => exact ⟨s, t, rfl⟩
  obtain ⟨sa, ua, hsa'⟩ := segs_of a ha
  obtain ⟨sb, ub, hsb'⟩ := segs_of b hb
  obtain ⟨pa, ta, hpa⟩ := List.exists_cons_of_ne_nil ha
  obtain ⟨pb, tb, hpb⟩ := List.exists_cons_of_ne_nil hb
  have hA := hsa sa (by rw [hsa']; rfl)
  have hB := hsb sb (by rw [hsb']; rfl)
  have tot : ∀ L R : Seg, (L.items = [] ∨ L.pairs ≠ []) → (R.items = [] ∨ R.pairs ≠ []) →
      ∃ l r, resolvePair P L R = .ok (l, r) := by
    intro L R h1 h2
    obtain ⟨l, r, br, h⟩ := resolvePairB_total_of_pairs P L R h1 h2
    exact ⟨l, r, ConflictAll.resolvePair_ok_iff.mpr ⟨br, h⟩⟩
  unfold joinRows
  rw [hpa, hpb, hsa', hsb']
  simp only [bind, Except.bind, pure, Except.pure]
  split
  · obtain ⟨l, r, h⟩ := tot sa sb hA hB
    rw [h]; exact ⟨_, rfl⟩
  · obtain ⟨l, r, h⟩ := tot sb sa hB hA
    rw [h]; exact ⟨_, rfl⟩

end Coma.Proofs


namespace Coma.Proofs.Total
open Coma Coma.Spec Coma.Proofs.Compose

theorem factoryLike_first {s : Seg} (hF : FactoryLike s) : s.items = [] ∨ s.pairs ≠ [] := by
  cases he : s.isEmpty with
  | true => exact Or.inl (List.isEmpty_iff.mp he)
  | false => exact Or.inr (factoryLike_pairs_ne_nil hF he)

theorem prefix_first {l c : Seg} (hF : FactoryLike c) (h : l.items <+: c.items) :
    l.items = [] ∨ l.pairs ≠ [] := by
  rcases hF.2.first with h0 | ⟨p, hp⟩
  · left
    rw [h0] at h
    exact List.prefix_nil.mp h
  · cases hl : l.items with
    | nil => exact Or.inl rfl
    | cons a t =>
      right
      obtain ⟨u, hu⟩ := h
      rw [hl] at hu
      rw [← hu] at hp
      simp only [List.cons_append, List.head?_cons, Option.some.injEq] at hp
      subst hp
      simp [Seg.pairs, hl, APos.pair?]

theorem resolveConflicts_first (P : Params) (C : ChainCfg) (segs res : List Seg)
    (hF : ∀ s ∈ segs, FactoryLike s) (h : resolveConflicts P C segs = .ok res) :
    ∀ s, res.head? = some s → s.items = [] ∨ s.pairs ≠ [] := by
  intro s hs
  cases segs with
  | nil =>
    have : res = [] := by
      have e : resolveConflicts P C [] = .ok [] := rfl
      rw [e] at h; injection h with h; exact h.symm
    subst this; cases hs
  | cons a t =>
    cases t with
    | nil =>
      have : res = [a] := by
        have e : resolveConflicts P C [a] = .ok [a] := rfl
        rw [e] at h; injection h with h; exact h.symm
      subst this
      simp only [List.head?_cons, Option.some.injEq] at hs
      subst hs
      exact factoryLike_first (hF _ List.mem_cons_self)
    | cons b t =>
      have e : resolveConflicts P C (a :: b :: t) =
          match chainSegs P C (a :: b :: t) with
          | none => .error .indexError
          | some [] => .ok []
          | some (c :: cs) => resolveFrom P c cs := rfl
      rw [e] at h
      cases hch : chainSegs P C (a :: b :: t) with
      | none => rw [hch] at h; cases h
      | some ch =>
        rw [hch] at h
        have hsub := chainSegs_subset P C _ ch hch
        cases ch with
        | nil =>
          injection h with h; subst h; cases hs
        | cons c cs =>
          have hF' : ∀ s ∈ c :: cs, FactoryLike s := fun s hs => hF s (hsub s hs)
          simp only at h
          cases cs with
          | nil =>
            have : res = [c] := by
              have e : resolveFrom P c [] = .ok [c] := rfl
              rw [e] at h; injection h with h; exact h.symm
            subst this
            simp only [List.head?_cons, Option.some.injEq] at hs
            subst hs
            exact factoryLike_first (hF' _ List.mem_cons_self)
          | cons r rest =>
            obtain ⟨l', r', tail, hp, _, rfl⟩ := ConflictAll.resolveFrom_cons_ok_iff.mp h
            simp only [List.head?_cons, Option.some.injEq] at hs
            subst hs
            obtain ⟨br, hB⟩ := ConflictAll.resolvePair_ok_iff.mp hp
            have hc := hF' c List.mem_cons_self
            have hr := hF' r (List.mem_cons_of_mem _ List.mem_cons_self)
            exact prefix_first hc (resolve_subrun P c r l' r' br hB hc.1 hr.2).1

end Coma.Proofs.Total

namespace Coma.Proofs
open Coma Coma.Spec Coma.Proofs.Total Coma.Proofs.Compose

/-- the first segment of a candidate row is empty or keeps a pair (it is a prefix of a
    factory segment, which starts on a pair) -/
theorem alignerAlign_first_segment (P : Params) (C : ChainCfg) (hP : GoodParams P) (ref qry : OMap) (peaks : List Int)
    (rev : Bool) (it : Int) (hr : StrictAscending ref.positions) (hq : StrictAscending qry.positions)
    (row : Row) (h : alignerAlign P C ref qry peaks rev it = .ok row) :
    ∀ s, row.segments.head? = some s → s.items = [] ∨ s.pairs ≠ [] := by
  obtain ⟨segs, hsegs, hsrc⟩ := segmentsOfPeaks_ok P hP.su_nonpos ref qry rev peaks it
  have hF : ∀ s ∈ segs, FactoryLike s := by
    intro s hs
    obtain ⟨pk, _, it', h⟩ := hsrc s hs
    exact (factory_segments_ok P hP ref qry rev it' pk hr hq s h).1
  cases hres : resolveConflicts P C segs with
  | error e =>
    simp only [alignerAlign, hsegs, hres, bind, Except.bind] at h
    cases h
  | ok res =>
    simp only [alignerAlign, hsegs, hres, bind, Except.bind, pure, Except.pure, Except.ok.injEq] at h
    subst h
    exact resolveConflicts_first P C segs res hF hres

end Coma.Proofs


namespace Coma.Proofs.Total
open Coma Coma.Spec Coma.Proofs.Compose Coma.Proofs.SecondPass Coma.Proofs.Fields

/-- what a join needs of a row -/
def GoodRow (r : Row) : Prop :=
  r.pairs ≠ [] ∧ ∀ s, r.segments.head? = some s → s.items = [] ∨ s.pairs ≠ []

theorem resolveGroups_total (P : Params) (d : Int) : ∀ (gs : List (List Row)),
    (∀ g ∈ gs, ∀ x ∈ g, GoodRow x) → ∃ o, resolveGroups P d gs = .ok o
  | [], _ => ⟨_, rfl⟩
  | g :: gs, h => by
    obtain ⟨⟨j, s⟩, ih⟩ := resolveGroups_total P d gs (fun g' hg' => h g' (List.mem_cons_of_mem _ hg'))
    unfold resolveGroups
    simp only [ih, bind, Except.bind, pure, Except.pure]
    match g, h with
    | [], _ => exact ⟨_, rfl⟩
    | [x], _ => exact ⟨_, rfl⟩
    | x :: y :: rest, h =>
      simp only
      split
      · have hx := h _ List.mem_cons_self x List.mem_cons_self
        have hy := h _ List.mem_cons_self y (List.mem_cons_of_mem _ List.mem_cons_self)
        obtain ⟨o, ho⟩ := joinRows_total P x y hx.1 hy.1 hx.2 hy.2
        rw [ho]
        cases o <;> exact ⟨_, rfl⟩
      · exact ⟨_, rfl⟩

theorem resolveRows_total (P : Params) (d : Int) (rows : List Row) (h : ∀ x ∈ rows, GoodRow x) :
    ∃ o, resolveRows P d rows = .ok o := by
  rw [Modes.resolveRows_eq]
  exact resolveGroups_total P d _ (fun g hg x hx => h x (Modes.groupsOf_mem hg x hx))

theorem executeSingle_good (cfg : Cfg) (hP : GoodParams cfg.P) (refs : List OMap) (t : SeedTable)
    (qs : List OMap) (it : Int)
    (hrefs : ∀ r ∈ refs, StrictAscending r.positions) (hqs : ∀ q ∈ qs, StrictAscending q.positions)
    (rows : List Row) (h : executeSingle cfg refs t qs it = .ok rows) : ∀ r ∈ rows, GoodRow r := by
  intro row hrow
  obtain ⟨q, hq, r, hr, peaks, rev, ha⟩ := executeSingle_origin h row hrow
  exact ⟨executeSingle_pairs cfg refs t qs it rows h row hrow,
    alignerAlign_first_segment cfg.P cfg.C hP r q peaks rev it (hrefs r hr) (hqs q hq) row ha⟩

theorem secondPass_good (cfg : Cfg) (hP : GoodParams cfg.P) (refs : List OMap) (t : SeedTable) (qs : List OMap) (it : Int)
    (hrefs : ∀ r ∈ refs, StrictAscending r.positions) (hqs : ∀ q ∈ qs, StrictAscending q.positions ∧ q.shift = 0)
    (hids : (qs.map (·.id)).Nodup)
    (first : List Row) (h1 : executeSingle cfg refs t qs it = .ok first)
    (second : List Row) (h2 : secondPass cfg refs t qs first it = .ok second) :
    ∀ r ∈ second, GoodRow r := by
  have hpairs := executeSingle_pairs cfg refs t qs it first h1
  have horig := executeSingle_origin h1
  have hrow : ∀ row ∈ first, ∃ fl, unalignedFragments row qs = .ok fl ∧
      ∀ f ∈ fl, StrictAscending f.positions := by
    intro row hrowm
    obtain ⟨q, hq, r, hr, peaks, rev, ha⟩ := horig row hrowm
    have hqid := (alignerAlign_fields _ _ _ _ _ _ _ _ ha).1
    have hfind : qs.find? (fun m => m.id = row.queryId) = some q := by
      rw [hqid]; exact find_of_nodup qs q hq hids
    obtain ⟨fl, hfl, hfs⟩ := unalignedFragments_total cfg.P cfg.C hP r q peaks rev it (hrefs r hr) (hqs q hq).1
      (hqs q hq).2 row ha (hpairs row hrowm) qs hfind
    exact ⟨fl, hfl, fun f hf => (hfs f hf).1⟩
  unfold secondPass at h2
  simp only [bind, Except.bind, pure, Except.pure] at h2
  split at h2
  · cases h2
  · rename_i frags hfrags
    split at h2
    · cases h2
    · rename_i rows hrows
      injection h2 with h2
      subst h2
      have hsa : ∀ f ∈ frags.flatten, StrictAscending f.positions := by
        intro f hf
        obtain ⟨fl, hfl, hffl⟩ := List.mem_flatten.mp hf
        obtain ⟨row, hrowm, he⟩ := Modes.mapM_ok_mem _ _ _ hfrags fl hfl
        obtain ⟨fl', he', hall⟩ := hrow row hrowm
        rw [he] at he'
        injection he' with he'
        subst he'
        exact hall f hffl
      have hg := executeSingle_good cfg hP refs t frags.flatten it hrefs hsa rows hrows
      intro r hr
      obtain ⟨r0, hr0, rfl⟩ := List.mem_map.mp hr
      exact hg r0 hr0

end Coma.Proofs.Total

namespace Coma.Proofs
open Coma Coma.Spec Coma.Proofs.Total

/-- the whole alignment logic — first pass, fragments, second pass, grouping, joins, mode
    dispatch — never raises, in any output mode -/
theorem execute_total (cfg : Cfg) (mode : Mode) (hP : GoodParams cfg.P) (refs : List OMap) (t : SeedTable) (qs : List OMap) (it : Int)
    (hrefs : ∀ r ∈ refs, StrictAscending r.positions) (hqs : ∀ q ∈ qs, StrictAscending q.positions ∧ q.shift = 0)
    (hids : (qs.map (·.id)).Nodup)
    (hseeds : ∀ k, ∀ s ∈ t.lookup k, ∃ r ∈ refs, r.id = s.refId) :
    ∃ out, execute cfg mode refs t qs it = .ok out := by
  obtain ⟨first, h1⟩ := executeSingle_total cfg hP refs t qs it hrefs (fun q hq => (hqs q hq).1)
    (fun q _ => hseeds q.key)
    (fun r hr q hq peaks rev => alignerAlign_total cfg.P cfg.C hP r q peaks rev it (hrefs r hr) (hqs q hq).1)
  obtain ⟨second, h2⟩ := secondPass_total cfg hP refs t qs it hrefs hqs hids hseeds first h1
  have hg1 := executeSingle_good cfg hP refs t qs it hrefs (fun q hq => (hqs q hq).1) first h1
  have hg2 := secondPass_good cfg hP refs t qs it hrefs hqs hids first h1 second h2
  have hgf2 : ∀ r ∈ filterBestPerQuery second, GoodRow r := fun r hr => hg2 r (Modes.filterBest_mem hr)
  cases mode with
  | single => exact execute_single_total cfg hP refs t qs it hrefs hqs hseeds
  | separate => exact execute_separate_total cfg hP refs t qs it hrefs hqs hids hseeds
  | best =>
    have hg : ∀ r ∈ filterBestPerQuery (first ++ second) ++ filterBestPerQuery second, GoodRow r := by
      intro r hr
      rcases List.mem_append.mp hr with hr | hr
      · rcases List.mem_append.mp (Modes.filterBest_mem hr) with h | h
        · exact hg1 r h
        · exact hg2 r h
      · exact hgf2 r hr
    obtain ⟨js, hjs⟩ := resolveRows_total cfg.P cfg.maxDifference _ hg
    rw [Select.execute_best_eq cfg refs t qs it first second h1 h2, hjs]
    exact ⟨_, rfl⟩
  | joined =>
    have hg : ∀ r ∈ filterBestPerQuery first ++ filterBestPerQuery second, GoodRow r := by
      intro r hr
      rcases List.mem_append.mp hr with hr | hr
      · exact hg1 r (Modes.filterBest_mem hr)
      · exact hgf2 r hr
    obtain ⟨⟨j, s⟩, hjs⟩ := resolveRows_total cfg.P cfg.maxDifference _ hg
    rw [SrcBlind.execute_eq]
    simp [bind, Except.bind, pure, Except.pure, h1, h2, SrcBlind.execRest, hjs]
  | all =>
    have hg : ∀ r ∈ filterBestPerQuery first ++ filterBestPerQuery second, GoodRow r := by
      intro r hr
      rcases List.mem_append.mp hr with hr | hr
      · exact hg1 r (Modes.filterBest_mem hr)
      · exact hgf2 r hr
    obtain ⟨⟨j, s⟩, hjs⟩ := resolveRows_total cfg.P cfg.maxDifference _ hg
    rw [SrcBlind.execute_eq]
    simp [bind, Except.bind, pure, Except.pure, h1, h2, SrcBlind.execRest, hjs]

end Coma.Proofs

namespace Coma.Proofs
open Coma Coma.Spec Coma.Proofs.Total

/-- writing never raises on rows that are valid matchings (the HitEnum walk is total on them) -/
theorem renderRows_total_of_valid (cfg : Cfg) (rows : List Row)
    (hv : ∀ r ∈ rows, r.pairs = [] ∨ ValidMatching r.rev (sitePairs r.pairs)) :
    ∃ lines, renderRows cfg rows = .ok lines := by
  have key : ∀ (rows : List Row) (i : Nat),
      (∀ r ∈ rows, r.pairs = [] ∨ ValidMatching r.rev (sitePairs r.pairs)) →
      ∃ lines, renderRowsFrom cfg i rows = .ok lines := by
    intro rows
    induction rows with
    | nil => intro i _; exact ⟨[], rfl⟩
    | cons r rs ih =>
      intro i hv
      obtain ⟨tl, htl⟩ := ih (i + 1) (fun x hx => hv x (List.mem_cons_of_mem _ hx))
      have hc : ∃ s, cigarOf aggregate r.pairs = .ok s := by
        rcases hv r List.mem_cons_self with h | h
        · rw [h]; exact ⟨"", rfl⟩
        · cases hp : r.pairs with
          | nil => exact ⟨"", rfl⟩
          | cons p ps =>
            rw [hp] at h
            obtain ⟨s, hs, _⟩ := cigar_nonempty r.rev p ps h
            exact ⟨s, hs⟩
      obtain ⟨s, hs⟩ := hc
      simp only [renderRowsFrom, Row.toXRow, hs, htl, bind, Except.bind, pure, Except.pure]
      exact ⟨_, rfl⟩
  exact key rows 1 hv

end Coma.Proofs
