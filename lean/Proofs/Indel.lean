import Props.Defs
namespace Coma.Proofs
open Coma Coma.Spec

theorem cluster_partition (blur : Int) (calls : List Call) :
    ∃ gs : List (List Call), gs.flatten = calls ∧
      Forall2 Summarises (clusterIndels blur calls) gs := by
  sorry

theorem cluster_count (blur : Int) (calls : List Call) (h1 : ∀ c ∈ calls, c.count = 1) :
    ((clusterIndels blur calls).map (·.count)).sum = calls.length := by
  sorry

theorem cluster_ids (blur : Int) (calls : List Call) :
    (clusterIndels blur calls).flatMap (·.qids) = calls.flatMap (·.qids) := by
  sorry

theorem mkCall_spec (lo chrom qid rs re qs qe : Int) (hlo : 0 ≤ lo) :
    (∀ c, mkCall lo chrom qid rs re qs qe = some c →
        c.length = ((iabs' (rs - re) - iabs' (qs - qe) : Int) : Rat) ∧
        (c.isIns = true ↔ iabs' (rs - re) - iabs' (qs - qe) < 0) ∧
        c.chrom = chrom ∧ c.qids = [qid] ∧ c.rStart = rs ∧ c.rStop = re ∧ c.count = 1) ∧
    (mkCall lo chrom qid rs re qs qe = none ↔
        ¬ (lo < iabs' (iabs' (rs - re) - iabs' (qs - qe)) ∧ iabs' (iabs' (rs - re) - iabs' (qs - qe)) < 100000)) := by
  sorry

end Coma.Proofs
