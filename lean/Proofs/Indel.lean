import Props.Defs
import Proofs.SortLemmas

namespace Coma.Proofs.Indel
open Coma Coma.Spec

theorem forall2_append {α β} {R : α → β → Prop} {l1 l1' : List α} {l2 l2' : List β}
    (h : Forall2 R l1 l2) (h' : Forall2 R l1' l2') : Forall2 R (l1 ++ l1') (l2 ++ l2') := by
  induction h with
  | nil => simpa using h'
  | cons hab _ ih => exact Forall2.cons hab ih

theorem forall2_reverse {α β} {R : α → β → Prop} {l1 : List α} {l2 : List β}
    (h : Forall2 R l1 l2) : Forall2 R l1.reverse l2.reverse := by
  induction h with
  | nil => exact Forall2.nil
  | cons hab _ ih =>
    simp only [List.reverse_cons]
    exact forall2_append ih (Forall2.cons hab Forall2.nil)

theorem summarises_single (c : Call) : Summarises c [c] := by
  refine ⟨by simp, by simp, by simp, ?_, ?_, ⟨c, by simp, rfl⟩, ⟨c, by simp, rfl⟩⟩
  · intro m hm; simp at hm; subst hm; exact ⟨rfl, rfl⟩
  · intro m hm; simp at hm; subst hm; exact ⟨Int.le_refl _, Int.le_refl _⟩

theorem sameKey_iff (a b : Call) :
    a.sameKey b = true ↔ a.isIns = b.isIns ∧ a.chrom = b.chrom := by
  unfold Call.sameKey; simp

theorem summarises_merge {prev line : Call} {g : List Call} (h : Summarises prev g)
    (hk : line.sameKey prev = true) (hc : line.count = 1) :
    Summarises (prev.merge line) (g ++ [line]) := by
  obtain ⟨_, hcount, hq, hkey, hb, ⟨ms, hms, hms'⟩, ⟨me, hme, hme'⟩⟩ := h
  rw [sameKey_iff] at hk
  refine ⟨by simp, ?_, ?_, ?_, ?_, ?_, ?_⟩
  · simp [Call.merge, hcount, hc]
  · simp [Call.merge, hq]
  · intro m hm
    simp only [Call.merge]
    rcases List.mem_append.1 hm with hm | hm
    · exact hkey m hm
    · simp at hm; subst hm; exact hk
  · intro m hm
    simp only [Call.merge]
    rcases List.mem_append.1 hm with hm | hm
    · have := hb m hm; omega
    · simp at hm; subst hm; omega
  · simp only [Call.merge]
    by_cases hle : prev.rStart ≤ line.rStart
    · exact ⟨ms, by simp [hms], by omega⟩
    · exact ⟨line, by simp, by omega⟩
  · simp only [Call.merge]
    by_cases hle : line.rStop ≤ prev.rStop
    · exact ⟨me, by simp [hme], by omega⟩
    · exact ⟨line, by simp, by omega⟩

/-- one step of the loop preserves the partition invariant (both lists reversed) -/
theorem step_inv (blur : Int) (line : Call) (hc : line.count = 1)
    (acc : List Call) (gsRev : List (List Call)) (h : Forall2 Summarises acc gsRev) :
    ∃ gsRev', Forall2 Summarises (clusterStep blur acc line) gsRev' ∧
      gsRev'.reverse.flatten = gsRev.reverse.flatten ++ [line] := by
  cases h with
  | nil =>
    exact ⟨[[line]], Forall2.cons (summarises_single line) Forall2.nil, by simp⟩
  | @cons prev g rest grest hpg hrest =>
    have hnew : ∃ gsRev', Forall2 Summarises (line :: prev :: rest) gsRev' ∧
        gsRev'.reverse.flatten = (g :: grest).reverse.flatten ++ [line] :=
      ⟨[line] :: g :: grest,
        Forall2.cons (summarises_single line) (Forall2.cons hpg hrest), by simp⟩
    simp only [clusterStep]
    split
    · split
      · rename_i hk
        exact ⟨(g ++ [line]) :: grest,
          Forall2.cons (summarises_merge hpg hk hc) hrest, by simp⟩
      · exact hnew
    · exact hnew

theorem fold_inv (blur : Int) (calls : List Call) (h1 : ∀ c ∈ calls, c.count = 1) :
    ∀ (acc : List Call) (gsRev : List (List Call)), Forall2 Summarises acc gsRev →
      ∃ gsRev', Forall2 Summarises (calls.foldl (clusterStep blur) acc) gsRev' ∧
        gsRev'.reverse.flatten = gsRev.reverse.flatten ++ calls := by
  induction calls with
  | nil => intro acc gsRev h; exact ⟨gsRev, h, by simp⟩
  | cons line rest ih =>
    intro acc gsRev h
    obtain ⟨gs1, hf1, hfl1⟩ := step_inv blur line (h1 line (by simp)) acc gsRev h
    obtain ⟨gs2, hf2, hfl2⟩ := ih (fun c hc => h1 c (by simp [hc])) _ gs1 hf1
    exact ⟨gs2, hf2, by rw [hfl2, hfl1]; simp⟩

/-- CORRECTED form of `cluster_partition`: it needs every input `Count` to be 1, because
    `Call.merge` adds `1` (not `line.count`) to the cluster count. -/
theorem cluster_partition_of_unit (blur : Int) (calls : List Call)
    (h1 : ∀ c ∈ calls, c.count = 1) :
    ∃ gs : List (List Call), gs.flatten = calls ∧
      Forall2 Summarises (clusterIndels blur calls) gs := by
  obtain ⟨gsRev, hf, hfl⟩ := fold_inv blur calls h1 [] [] Forall2.nil
  exact ⟨gsRev.reverse, by simpa using hfl, forall2_reverse hf⟩

theorem sum_counts_of_forall2 {cs : List Call} {gs : List (List Call)}
    (h : Forall2 Summarises cs gs) :
    (cs.map (·.count)).sum = (gs.flatten.map (·.count)).sum := by
  induction h with
  | nil => rfl
  | cons hab _ ih =>
    simp only [List.map_cons, List.sum_cons, List.flatten_cons, List.map_append,
      List.sum_append, ih, hab.2.1]

theorem sum_counts_unit (calls : List Call) (h1 : ∀ c ∈ calls, c.count = 1) :
    (calls.map (·.count)).sum = calls.length := by
  induction calls with
  | nil => rfl
  | cons c rest ih =>
    simp only [List.map_cons, List.sum_cons, List.length_cons]
    rw [ih (fun c hc => h1 c (by simp [hc])), h1 c (by simp)]
    omega

theorem step_ids (blur : Int) (acc : List Call) (line : Call) :
    (clusterStep blur acc line).reverse.flatMap (·.qids)
      = acc.reverse.flatMap (·.qids) ++ line.qids := by
  cases acc with
  | nil => simp [clusterStep]
  | cons prev rest =>
    simp only [clusterStep]
    split
    · split
      · simp [Call.merge, List.flatMap_append]
      · simp [List.flatMap_append]
    · simp [List.flatMap_append]

theorem fold_ids (blur : Int) (calls : List Call) : ∀ acc : List Call,
    (calls.foldl (clusterStep blur) acc).reverse.flatMap (·.qids)
      = acc.reverse.flatMap (·.qids) ++ calls.flatMap (·.qids) := by
  induction calls with
  | nil => intro acc; simp
  | cons line rest ih =>
    intro acc
    simp only [List.foldl_cons, ih, step_ids, List.flatMap_cons, List.append_assoc]

/-- the two-call input refuting the unguarded `cluster_partition` statement -/
def cex : List Call :=
  [⟨false, 1, 100, 200, [7], 1, 2, 5000, 1⟩, ⟨false, 1, 150, 250, [8], 1, 2, 5000, 5⟩]

/-- `cluster_partition` as stated (no hypothesis on the input counts) is FALSE -/
theorem cluster_partition_false :
    ¬ ∃ gs : List (List Call), gs.flatten = cex ∧
        Forall2 Summarises (clusterIndels 30000 cex) gs := by
  rintro ⟨gs, hfl, hf⟩
  have hlen : (clusterIndels 30000 cex).map (·.count) = [2] := by decide +kernel
  have hsum := sum_counts_of_forall2 hf
  rw [hfl, hlen] at hsum
  exact absurd hsum (by decide)

end Coma.Proofs.Indel

namespace Coma.Proofs
open Coma Coma.Spec Coma.Proofs.Indel

theorem cluster_partition (blur : Int) (calls : List Call) (h1 : ∀ c ∈ calls, c.count = 1) :
    ∃ gs : List (List Call), gs.flatten = calls ∧
      Forall2 Summarises (clusterIndels blur calls) gs :=
  Indel.cluster_partition_of_unit blur calls h1

theorem cluster_count (blur : Int) (calls : List Call) (h1 : ∀ c ∈ calls, c.count = 1) :
    ((clusterIndels blur calls).map (·.count)).sum = calls.length := by
  obtain ⟨gs, hfl, hf⟩ := cluster_partition_of_unit blur calls h1
  rw [sum_counts_of_forall2 hf, hfl, sum_counts_unit calls h1]

theorem cluster_ids (blur : Int) (calls : List Call) :
    (clusterIndels blur calls).flatMap (·.qids) = calls.flatMap (·.qids) := by
  unfold clusterIndels
  rw [fold_ids]; simp

theorem mkCall_spec (lo chrom qid rs re qs qe : Int) (hlo : 0 ≤ lo) :
    (∀ c, mkCall lo chrom qid rs re qs qe = some c →
        c.length = ((iabs' (rs - re) - iabs' (qs - qe) : Int) : Rat) ∧
        (c.isIns = true ↔ iabs' (rs - re) - iabs' (qs - qe) < 0) ∧
        c.chrom = chrom ∧ c.qids = [qid] ∧ c.rStart = rs ∧ c.rStop = re ∧ c.count = 1) ∧
    (mkCall lo chrom qid rs re qs qe = none ↔
        ¬ (lo < iabs' (iabs' (rs - re) - iabs' (qs - qe)) ∧ iabs' (iabs' (rs - re) - iabs' (qs - qe)) < 100000)) := by
  unfold mkCall
  simp only []
  generalize iabs' (rs - re) - iabs' (qs - qe) = diff
  constructor
  · intro c hc
    split at hc
    · rename_i hg
      cases hc
      simp only [decide_eq_true_eq, true_and, and_true]
      unfold iabs' at hg
      split at hg <;> omega
    · cases hc
  · split
    · rename_i hg
      simp only [reduceCtorEq, false_iff, Decidable.not_not]
      exact ⟨hg.1, hg.2⟩
    · rename_i hg
      simp only [true_iff]
      intro h
      exact hg ⟨h.1, h.2⟩

end Coma.Proofs

namespace Coma.Proofs
open Coma Coma.Spec

theorem sortCalls_perm (l : List Call) : (sortCalls l).Perm l :=
  (isort_perm _ _).trans (isort_perm _ _)

theorem sum_count_perm {l l' : List Call} (h : l.Perm l') :
    (l.map (·.count)).sum = (l'.map (·.count)).sum :=
  (h.map _).sum_nat

/-- the Count column of the written file sums to the number of calls found (both types) -/
theorem indelFile_count (blur : Int) (ins dels : List Call)
    (hi : ∀ c ∈ ins, c.count = 1) (hd : ∀ c ∈ dels, c.count = 1) :
    ((indelFile blur ins dels).map (·.count)).sum = ins.length + dels.length := by
  unfold indelFile
  rw [sum_count_perm (sortCalls_perm _), List.map_append, List.sum_append,
    cluster_count blur _ (fun c hc => hd c ((sortCalls_perm dels).mem_iff.mp hc)),
    cluster_count blur _ (fun c hc => hi c ((sortCalls_perm ins).mem_iff.mp hc)),
    (sortCalls_perm dels).length_eq, (sortCalls_perm ins).length_eq]
  omega

/-- every query id of every call found appears in exactly one line of the file -/
theorem indelFile_ids (blur : Int) (ins dels : List Call) :
    ((indelFile blur ins dels).flatMap (·.qids)).Perm ((ins ++ dels).flatMap (·.qids)) := by
  unfold indelFile
  refine ((sortCalls_perm _).flatMap_right _).trans ?_
  rw [List.flatMap_append, cluster_ids, cluster_ids, List.flatMap_append]
  exact (List.perm_append_comm).trans
    (((sortCalls_perm ins).flatMap_right _).append ((sortCalls_perm dels).flatMap_right _))

/-- lines never mix types: every line comes from clustering one type -/
theorem indelFile_types (blur : Int) (ins dels : List Call) :
    ∀ c ∈ indelFile blur ins dels,
      c ∈ clusterIndels blur (sortCalls dels) ∨ c ∈ clusterIndels blur (sortCalls ins) := by
  intro c hc
  have := (sortCalls_perm _).mem_iff.mp hc
  simpa [List.mem_append] using this

end Coma.Proofs
