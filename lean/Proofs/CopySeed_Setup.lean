/-
  Proofs/CopySeed_Setup.lean — from the model to the label-level description `Geo` (helper for Proofs/CopySeed.lean):
  the query vector of an exact copy and the reference vector of the refinement window.
-/
import Proofs.CopySeed_Corr
namespace Coma.Proofs.CopySeed
open Coma Coma.Spec Coma.Proofs Coma.Proofs.Vector

theorem getD_of_lt (l : List Int) (j : Nat) (h : j < l.length) : l.getD j 0 = l[j] := by
  simp [List.getD_eq_getElem?_getD, List.getElem?_eq_getElem h]

/-- the positions of an exact copy of `n` labels from index `i` on, as an indexed family -/
theorem copy_getD (R : List Int) (i n j : Nat) (hin : i + n ≤ R.length) (hj : j < n) :
    (((R.drop i).take n).map (fun p => p - R.getD i 0)).getD j 0 = R.getD (i + j) 0 - R.getD i 0 := by
  have h : i + j < R.length := by omega
  simp [List.getD_eq_getElem?_getD, hj, List.getElem?_drop, List.getElem?_eq_getElem h]

theorem copy_length (R : List Int) (i n : Nat) (hin : i + n ≤ R.length) :
    (((R.drop i).take n).map (fun p => p - R.getD i 0)).length = n := by
  simp; omega

/-- the label-level description of the two vectors -/
theorem geo_of (R Q : List Int) (i n : Nat) (start stop : Int) (qv rv : List Nat)
    (hn : 2 ≤ n) (hgaps : R.Pairwise (fun a b => a + 2000 ≤ b)) (hin : i + n < R.length)
    (hQ : Q = ((R.drop i).take n).map (fun p => p - R.getD i 0))
    (hstart : start + 500 ≤ R.getD i 0) (hnext : R.getD (i + n) 0 ≤ stop) (hstop : stop ≠ 0)
    (hq : sequenceOf 100 4 Q 0 none = .ok qv) (hr : sequenceOf 100 4 R start (some stop) = .ok rv) :
    Geo (fun m => R.getD m 0) R.length i n start qv rv := by
  have hg : ∀ m m', m < m' → m' < R.length → R.getD m 0 + 2000 ≤ R.getD m' 0 :=
    fun m m' h1 h2 => pairwise_getD R _ hgaps m m' h1 h2
  have hRasc : Ascending R := hgaps.imp (fun h => by omega)
  have hQlen : Q.length = n := by rw [hQ]; exact copy_length R i n (by omega)
  have hQget : ∀ j, j < n → Q.getD j 0 = R.getD (i + j) 0 - R.getD i 0 := by
    intro j hj; rw [hQ]; exact copy_getD R i n j (by omega) hj
  have hmono : ∀ j, j < n → R.getD i 0 ≤ R.getD (i + j) 0 := by
    intro j hj
    by_cases h0 : j = 0
    · subst h0; exact Int.le_refl _
    · have := hg i (i + j) (by omega) (by omega); omega
  have hQasc : Ascending Q := by
    unfold Ascending
    rw [List.pairwise_iff_getElem]
    intro a b ha hb hab
    have h1 := hQget a (by omega)
    have h2 := hQget b (by omega)
    rw [getD_of_lt Q a ha] at h1
    rw [getD_of_lt Q b hb] at h2
    have := hg (i + a) (i + b) (by omega) (by omega)
    omega
  have hQlast : Q.getLast? = some (R.getD (i + (n - 1)) 0 - R.getD i 0) := by
    rw [List.getLast?_eq_getElem?, hQlen]
    have h1 := hQget (n - 1) (by omega)
    have hlt : n - 1 < Q.length := by omega
    rw [getD_of_lt Q _ hlt] at h1
    rw [List.getElem?_eq_getElem hlt, h1]
  have hQmem : ∀ p, p ∈ Q ↔ ∃ j, j < n ∧ p = R.getD (i + j) 0 - R.getD i 0 := by
    intro p
    rw [mem_iff_getD, hQlen]
    constructor
    · rintro ⟨j, hj, rfl⟩; exact ⟨j, hj, hQget j hj⟩
    · rintro ⟨j, hj, rfl⟩; exact ⟨j, hj, (hQget j hj).symm⟩
  obtain ⟨hql, _, hqb⟩ := seq_spec Q 0 none qv hQasc hq
  obtain ⟨_, hrlost, hrb⟩ := seq_spec R start (some stop) rv hRasc hr
  have hstopq : stopEff' Q none = R.getD (i + (n - 1)) 0 - R.getD i 0 := by
    simp [stopEff', hQlast]
  have hstopr : stopEff' R (some stop) = stop := by
    simp [stopEff', hstop]
  have hlastnn := hmono (n - 1) (by omega)
  have hqlen : qv.length = qb (fun m => R.getD m 0) i (n - 1) + 1 := by
    rw [hql, hstopq, vecGo_length 100 _ (by omega) Q 0 _ hQasc
      (fun p hp => mem_le_last Q _ hQasc hQlast p hp) hQlast, if_neg (by omega)]
    unfold qb
    simp
  refine ⟨hn, hin, hg, hstart, hqlen, ?_, ?_, ?_⟩
  · intro x hx
    obtain ⟨hb1, hb2⟩ := hqb x hx
    refine ⟨hb1, hb2.trans ?_⟩
    constructor
    · rintro ⟨p, hp, _, _, h3, h4⟩
      obtain ⟨j, hj, rfl⟩ := (hQmem p).mp hp
      refine ⟨j, hj, ?_, ?_⟩
      · unfold binOf at h3; unfold qb; simpa using h3
      · unfold binOf at h4; unfold qb; simpa using h4
    · rintro ⟨j, hj, h3, h4⟩
      have hm := hmono j hj
      refine ⟨_, (hQmem _).mpr ⟨j, hj, rfl⟩, by omega, ?_, ?_, ?_⟩
      · rw [hqlen]
        have : R.getD (i + j) 0 ≤ R.getD (i + (n - 1)) 0 := by
          by_cases hjn : j = n - 1
          · rw [hjn]; exact Int.le_refl _
          · have := hg (i + j) (i + (n - 1)) (by omega) (by omega); omega
        unfold binOf qb
        simp only []
        omega
      · unfold qb at h3; unfold binOf; simpa using h3
      · unfold qb at h4; unfold binOf; simpa using h4
  · have hmem : R.getD (i + n) 0 ∈ R := (mem_iff_getD R _).mpr ⟨i + n, hin, rfl⟩
    have := hrlost _ hmem (by have := hg i (i + n) (by omega) hin; omega) (by rw [hstopr]; exact hnext)
    exact this
  · intro y hy
    obtain ⟨hb1, hb2⟩ := hrb y hy
    refine ⟨hb1, hb2.trans ?_⟩
    constructor
    · rintro ⟨p, hp, h1, h2, h3, h4⟩
      obtain ⟨m, hm, rfl⟩ := (mem_iff_getD R p).mp hp
      exact ⟨m, hm, h1, h2, h3, h4⟩
    · rintro ⟨m, hm, h1, h2, h3, h4⟩
      exact ⟨_, (mem_iff_getD R _).mpr ⟨m, hm, rfl⟩, h1, h2, h3, h4⟩

end Coma.Proofs.CopySeed
