/-
  Props/C01.lean — PROPERTY THEOREMS for C01 (every reported alignment is a one-to-one, collinear
  matching of real labels).  Statements only; proofs in Proofs/Compose.lean, Proofs/Modes.lean,
  Proofs/Select.lean, Proofs/Pairing.lean, Proofs/ConflictAll.lean.

  FULL STATEMENT (kept visible): "every candidate alignment the aligner builds from any list of
  seed peaks lists its pairs in strictly ascending reference order with query labels strictly
  monotone, each label at most once".  It is FALSE of the unchanged code for dense ladders of seed
  peaks: `C01_candidate_counterexample_never_compared` (F5 / KF-a) and
  `C01_candidate_counterexample_interior` (F6 / KF-b).  Proved instead:
  `C01_candidate_valid_partial` (no interior index merge and every final segment keeps a pair)
  — plus everything else in the property at full strength.
-/
import Props.Defs
import Props.C15
import Proofs.Compose
import Proofs.Modes
import Proofs.Select
import Proofs.SitesValid
import Proofs.Ties
import Proofs.TiesRun
import Proofs.TiesMore
namespace Coma.Props
open Coma Coma.Spec

/-- every pair of every segment of a candidate joins real labels of the named maps -/
theorem C01_labels_real (P : Params) (C : ChainCfg) (hP : GoodParams P) (ref qry : OMap) (peaks : List Int)
    (rev : Bool) (it : Int) (hr : Ascending ref.positions) (hq : Ascending qry.positions)
    (row : Row) (h : alignerAlign P C ref qry peaks rev it = .ok row) :
    ∀ p ∈ row.pairs, p.r ∈ ref.labels false ∧ p.q ∈ qry.labels rev :=
  Coma.Proofs.alignerAlign_labels_real_weak P C hP ref qry peaks rev it hr hq row h

/-- inside one segment pairs are strictly ascending on both maps — also for molecules with COINCIDENT labels (label
    coordinates only weakly ascending, as a CMAP file may have them): of two labels of one molecule at one coordinate at
    most one is ever paired (`Proofs/Ties.lean`) -/
theorem C01_segment_valid (P : Params) (C : ChainCfg) (hP : GoodParams P) (ref qry : OMap) (peaks : List Int)
    (rev : Bool) (it : Int) (hr : Ascending ref.positions) (hq : Ascending qry.positions)
    (row : Row) (h : alignerAlign P C ref qry peaks rev it = .ok row) :
    ∀ s ∈ row.segments, PairsAscending s.items :=
  Coma.Proofs.alignerAlign_segment_valid_weak P C hP ref qry peaks rev it hr hq row h

/-- two pairs of one seed peak that use different reference labels differ in reference AND query coordinate, whatever
    labels coincide -/
theorem C01_coincident_labels_never_both_paired (md : Int) (ref qry : OMap) (start stop : Int) (rev : Bool) (it : Int)
    (hq : Ascending qry.positions) (a b : Pr)
    (ha : APos.pair a ∈ engineAlign md ref qry start stop rev it)
    (hb : APos.pair b ∈ engineAlign md ref qry start stop rev it)
    (hne : a.r.site ≠ b.r.site) : a.r.pos ≠ b.r.pos ∧ a.q.pos ≠ b.q.pos :=
  Coma.Proofs.engine_pairs_distinct_coords md ref qry start stop rev it hq a b ha hb hne

/-- across segments: when no resolver step takes the interior index merge and every final
    segment keeps a pair, all pairs of the pass's result are strictly ascending on both maps, in
    listed order — hence one-to-one and collinear -/
theorem C01_candidate_valid_partial (P : Params) (c : Seg) (cs out : List Seg) (bs : List Branch)
    (h : resolveFromB P c cs = .ok (out, bs)) (hF : ∀ s ∈ c :: cs, FactoryLike s)
    (hS : ∀ a ∈ c :: cs, ∀ b ∈ c :: cs, StrictCoords a b) (hb : ∀ b ∈ bs, b ≠ Branch.interior)
    (hp : ∀ s ∈ out, s.pairs ≠ []) (ha : ∀ s ∈ out, PairsAscending s.items) :
    (out.flatMap Seg.pairs).Pairwise (fun a b => a.r.pos < b.r.pos ∧ a.q.pos < b.q.pos) :=
  Coma.Proofs.separated_pairs_ascending out (Coma.Proofs.resolveFrom_all_separated P c cs out bs h hF hS hb hp) ha

/-- in LABEL NUMBERS: a candidate whose listed pairs are strictly ascending on both maps in
    coordinates (previous theorem) is a one-to-one collinear matching of real labels — reference
    numbers strictly ascending, query numbers strictly increasing for '+' / decreasing for '-' -/
theorem C01_candidate_sites_valid_partial (P : Params) (C : ChainCfg) (hP : GoodParams P) (ref qry : OMap) (peaks : List Int)
    (rev : Bool) (it : Int) (hr : Ascending ref.positions) (hq : Ascending qry.positions)
    (row : Row) (h : alignerAlign P C ref qry peaks rev it = .ok row)
    (hasc : row.pairs.Pairwise (fun a b => a.r.pos < b.r.pos ∧ a.q.pos < b.q.pos)) :
    ValidMatching rev (sitePairs row.pairs) ∧
    (∀ p ∈ row.pairs, p.r ∈ ref.labels false ∧ p.q ∈ qry.labels rev) :=
  Coma.Proofs.candidate_sites_valid_weak P C hP ref qry peaks rev it hr hq row h hasc

/-- full strength for the common case: a candidate with at most one non-empty segment (one seed
    peak, or all but one segment dropped by the chainer) is ALWAYS a valid matching -/
theorem C01_single_segment_valid (P : Params) (C : ChainCfg) (hP : GoodParams P) (ref qry : OMap) (peaks : List Int)
    (rev : Bool) (it : Int) (hr : Ascending ref.positions) (hq : Ascending qry.positions)
    (row : Row) (h : alignerAlign P C ref qry peaks rev it = .ok row)
    (h1 : (row.segments.filter (fun s => !s.items.isEmpty)).length ≤ 1) :
    ValidMatching rev (sitePairs row.pairs) :=
  Coma.Proofs.candidate_single_segment_valid_weak P C hP ref qry peaks rev it hr hq row h h1

/-- the two refutations of the full claim are the C15 witnesses: (F6 / KF-b) the interior index
    merge leaves query label 2 in both segments … -/
theorem C01_candidate_counterexample_interior :
    ∃ l r, resolvePairB ⟨10, 2, -1, 1, 15, 5⟩
        ⟨0, [.pair ⟨⟨3, 7⟩, ⟨2, 7⟩, 0, 0⟩, .pair ⟨⟨4, 8⟩, ⟨1, 8⟩, 0, 0⟩]⟩
        ⟨9, [.pair ⟨⟨4, 8⟩, ⟨3, 0⟩, 1, 0⟩, .pair ⟨⟨5, 16⟩, ⟨2, 7⟩, 0, 0⟩]⟩ = .ok (l, r, Branch.interior) ∧
      sharesLabel l r = true :=
  C15_interior_counterexample

/-- … and (F5 / KF-a) the neighbours of an emptied chain member keep query label 3 twice -/
theorem C01_candidate_counterexample_never_compared :
    ∃ out bs, resolveFromB ⟨10, 1, -3, 2, 10, 12⟩
        ⟨2, [.pair ⟨⟨1, 0⟩, ⟨3, 0⟩, 2, 0⟩, .uqry ⟨2, 1⟩ 2, .pair ⟨⟨2, 9⟩, ⟨1, 5⟩, -2, 0⟩]⟩
        [⟨4, [.pair ⟨⟨2, 9⟩, ⟨1, 5⟩, 0, 0⟩]⟩,
         ⟨11, [.pair ⟨⟨2, 9⟩, ⟨3, 0⟩, 2, 0⟩, .uqry ⟨2, 1⟩ 11, .pair ⟨⟨3, 17⟩, ⟨1, 5⟩, -1, 0⟩]⟩] = .ok (out, bs) ∧
      (∀ b ∈ bs, b ≠ Branch.interior) ∧
      (match out with | [a, _, c] => sharesLabel a c | _ => false) = true :=
  C15_emptied_middle_counterexample

/-- a joined record is a valid matching with at least one pair (by the `fix:` check) whose pairs
    come from its two parts -/
theorem C01_join_valid (P : Params) (a b j : Row) (h : joinRows P a b = .ok (some j)) :
    j.pairs ≠ [] ∧ ValidMatching j.rev (sitePairs j.pairs) ∧ (∀ p ∈ j.pairs, p ∈ a.pairs ∨ p ∈ b.pairs) :=
  let t := Coma.Proofs.joinRows_subset P a b j h
  ⟨t.2.2.2.2.2.2.1, t.2.2.2.2.2.2.2, t.1⟩

/-- every first- and second-pass row that reaches an output file has at least one pair -/
theorem C01_written_rows_nonempty (cfg : Cfg) (refs : List OMap) (t : SeedTable) (qs : List OMap) (it : Int)
    (rows : List Row) (h : executeSingle cfg refs t qs it = .ok rows) : ∀ r ∈ rows, r.pairs ≠ [] :=
  Coma.Proofs.executeSingle_pairs cfg refs t qs it rows h

end Coma.Props
