/-
  Props/C16.lean — PROPERTY THEOREMS for C16 (vectorisation, blur and bin-to-bp mapping are
  exact; seeds are the top peaks).  Statements only; proofs in Proofs/Vector.lean.

  Models: `vectorise` (src/correlation/vectorise.py:7-25), `blur` (lines 28-39),
  `toBp` (src/correlation/optical_map.py:26-28), `selectPeaks`
  (src/correlation/peaks_selector.py:18-21).
  Quantifier: all ascending label lists, all resolutions ≥ 1, all starts (negative too), all
  ends (missing / 0 ⇒ last label), all radii ≥ 0, all peak lists and counts.
-/
import Props.Defs
import Proofs.Vector
import Coma.Corr
import Proofs.Peaks
import Proofs.TranslateSec
import Proofs.TranslateSeed
namespace Coma.Props
open Coma Coma.Spec

/-- the effective end of the window: `end or positions[-1]` -/
def stopEff (positions : List Int) (stop? : Option Int) : Int :=
  match stop? with
  | some e => if e ≠ 0 then e else positions.getLast?.getD 0
  | none   => positions.getLast?.getD 0

/-- every emitted bit i says exactly whether some label lies in
    [start + i·res, start + (i+1)·res) -/
theorem C16_bits (positions : List Int) (res start : Int) (stop? : Option Int) (v : List Nat)
    (hs : Ascending positions) (h : vectorise positions res start stop? = .ok v) :
    ∀ i, i < v.length →
      (v.getD i 0 = 1 ∨ v.getD i 0 = 0) ∧
      (v.getD i 0 = 1 ↔ ∃ p ∈ positions, start + i * res ≤ p ∧ p < start + (i + 1) * res) :=
  Coma.Proofs.vectorise_bits positions res start stop? v hs h

/-- no label between start and end is lost: its bin is inside the vector -/
theorem C16_no_label_lost (positions : List Int) (res start : Int) (stop? : Option Int) (v : List Nat)
    (hs : Ascending positions) (h : vectorise positions res start stop? = .ok v) :
    ∀ p ∈ positions, start ≤ p → p ≤ stopEff positions stop? → ((p - start) / res).toNat < v.length :=
  Coma.Proofs.vectorise_no_label_lost positions res start stop? v hs h

/-- the error cases are exactly: resolution < 1, or no end given and no labels -/
theorem C16_vectorise_ok (positions : List Int) (res start : Int) (stop? : Option Int) :
    (∃ v, vectorise positions res start stop? = .ok v) ↔
      (1 ≤ res ∧ (positions ≠ [] ∨ ∃ e, stop? = some e ∧ e ≠ 0)) :=
  Coma.Proofs.vectorise_ok positions res start stop?

/-- blurring keeps the length and sets bit i exactly when an original bit lies within the radius -/
theorem C16_blur (v w : List Nat) (radius : Int) (h : blur v radius = .ok w) :
    w.length = v.length ∧
    ∀ i, i < v.length →
      (w.getD i 0 = 1 ∨ w.getD i 0 = 0) ∧
      (w.getD i 0 = 1 ↔ ∃ j, j < v.length ∧ v.getD j 0 ≠ 0 ∧ (i : Int) - radius ≤ j ∧ (j : Int) ≤ i + radius) :=
  Coma.Proofs.blur_spec v w radius h

/-- a bin index converts to a coordinate inside the bin and within half a resolution of both
    of its ends (the bin centre) -/
theorem C16_bin_centre (bin res start : Int) (hres : 1 ≤ res) :
    start + bin * res ≤ toBp bin res start ∧ toBp bin res start < start + (bin + 1) * res ∧
    2 * (toBp bin res start - (start + bin * res)) ≤ res ∧
    2 * ((start + (bin + 1) * res - 1) - toBp bin res start) ≤ res :=
  Coma.Proofs.toBp_centre bin res start hres

/-- the seeds kept are the `count` highest-scoring peaks, in descending order (stable) -/
theorem C16_top_n {α} (count : Nat) (score : α → Int) (peaks : List α) :
    (selectPeaks count score peaks).length = min count peaks.length ∧
    ((selectPeaks count score peaks).map score).Pairwise (· ≥ ·) ∧
    ∃ rest, (selectPeaks count score peaks ++ rest).Perm peaks ∧
      ∀ x ∈ selectPeaks count score peaks, ∀ y ∈ rest, score y ≤ score x :=
  Coma.Proofs.selectPeaks_spec count score peaks

/-- per correlation: when a correlation has more peaks than peaksCount exactly the peaksCount
    highest are kept (`createPeaks`, src/correlation/optical_map.py:141-155), each converted to the
    centre of its bin -/
theorem C16_top_n_per_correlation (count res start : Int) (peaks : List (Int × Int)) (_hc : 0 ≤ count)
    (hlt : count < peaks.length) :
    ∃ kept rest : List (Int × Int), createPeaks count res start peaks = kept.map (fun p => (toBp p.1 res start, p.2)) ∧
      kept.length = count.toNat ∧ (kept ++ rest).Perm peaks ∧ ∀ x ∈ kept, ∀ y ∈ rest, y.2 ≤ x.2 := by
  obtain ⟨hlen, _, rest, hperm, hle⟩ := C16_top_n count.toNat (fun (p : Int × Int) => p.2) peaks
  refine ⟨selectPeaks count.toNat (fun (p : Int × Int) => p.2) peaks, rest, ?_, ?_, hperm, hle⟩
  · simp [createPeaks, hlt]
  · rw [hlen]; omega

theorem C16_all_peaks_when_few (count res start : Int) (peaks : List (Int × Int)) (h : ¬ count < peaks.length) :
    createPeaks count res start peaks = peaks.map (fun p => (toBp p.1 res start, p.2)) := by
  simp [createPeaks, h]

/-! ### the secondary seeding stage (`Coma/Peaks.lean`): what the seeds handed to the aligner are -/

/-- `find_peaks` as `refine` calls it returns exactly the midpoints of the local-maximum plateaus whose
    height reaches the threshold and whose prominence is at least a twentieth of the largest sample -/
theorem C16_secondary_peaks (thr : Rat) (x : List Int) (p : Nat) (h : Int) :
    (p, h) ∈ findPeaksSecondary thr x ↔
      (∃ l r, Coma.Proofs.IsPlateau x l r ∧ p = (l + r) / 2) ∧ x[p]? = some h ∧ thr ≤ (h : Rat) ∧
        maxInit0 x ≤ 20 * prominence x p := by
  rw [Coma.Proofs.findPeaksSecondary_iff, Coma.Proofs.localMaxima_iff]

/-- … in ascending order of position -/
theorem C16_secondary_peaks_sorted (thr : Rat) (x : List Int) :
    ((findPeaksSecondary thr x).map (·.1)).Pairwise (· < ·) :=
  Coma.Proofs.findPeaksSecondary_sorted thr x

/-- every seed of the secondary stage is the centre of a bin `k` of the refinement window (which starts
    at `peak − margin`) where the secondary correlation has such a local maximum, with its height -/
theorem C16_seed_is_bin_centre (c : SecCfg) (ref q : OMap) (rev : Bool) (peak : Int) (pk : List (Int × Int))
    (h : refine c ref q rev peak = .ok pk) :
    ∃ corr, refineCorrelation c ref q rev peak = .ok corr ∧
      ∀ e ∈ pk, ∃ k : Nat, (k, e.2) ∈ findPeaksSecondary c.thr (corr.map Int.ofNat) ∧
        e.1 = toBp (k : Int) c.res (peak - c.margin) :=
  Coma.Proofs.refine_sound c ref q rev peak pk h

/-- when more than ten peaks pass, exactly the ten highest become seeds; otherwise all of them do -/
theorem C16_secondary_top (c : SecCfg) (ref q : OMap) (rev : Bool) (peak : Int) (corr : List Nat) (hk : 0 ≤ c.keep)
    (hc : refineCorrelation c ref q rev peak = .ok corr)
    (hn : c.keep < ((findPeaksSecondary c.thr (corr.map Int.ofNat)).length : Int)) :
    ∃ kept rest : List (Nat × Int),
      refine c ref q rev peak = .ok (kept.map fun p => (toBp (p.1 : Int) c.res (peak - c.margin), p.2)) ∧
      kept.length = c.keep.toNat ∧ (kept ++ rest).Perm (findPeaksSecondary c.thr (corr.map Int.ofNat)) ∧
      ∀ a ∈ kept, ∀ b ∈ rest, b.2 ≤ a.2 :=
  Coma.Proofs.refine_top c ref q rev peak corr hk hc hn

theorem C16_secondary_all_when_few (c : SecCfg) (ref q : OMap) (rev : Bool) (peak : Int) (corr : List Nat)
    (hc : refineCorrelation c ref q rev peak = .ok corr)
    (hn : ¬ c.keep < ((findPeaksSecondary c.thr (corr.map Int.ofNat)).length : Int)) :
    refine c ref q rev peak =
      .ok ((findPeaksSecondary c.thr (corr.map Int.ofNat)).map fun p => (toBp (p.1 : Int) c.res (peak - c.margin), p.2)) :=
  Coma.Proofs.refine_all_when_few c ref q rev peak corr hc hn

/-- non-vacuity: a two-label molecule refined against a reference that contains it -/
example : (refine { res := 100, blur := 1, margin := 500, thr := 2, keep := 10 }
            { id := 1, length := 3000, positions := [400, 1000, 1700, 2300] }
            { id := 2, length := 701, positions := [0, 700] } false 1000).toOption = some [(1049, 4)] := by decide +kernel

/-- non-vacuity -/
example : (vectorise [150, 420, 430, 999] 100 100 none).toOption = some [1, 0, 0, 1, 0, 0, 0, 0, 1] := by decide +kernel
example : (blur [0, 0, 1, 0, 0, 0] 1).toOption = some [0, 1, 1, 1, 0, 0] := by decide +kernel

/-! ### the secondary seeds move with the reference -/

/-- Moving the reference and the selected primary peak `d` bp along the chromosome leaves the secondary correlation
    unchanged and moves every secondary seed by exactly `d` (same heights, same order): bins are counted from the window
    start, so nothing depends on the magnitude of the coordinates.  Hypothesis: the window end `peak + |query| + margin`
    is positive before and after — every real run satisfies it (peak ≥ 0, a molecule has positive length). -/
theorem C16_secondary_translation (c : SecCfg) (ref q : OMap) (rev : Bool) (peak d : Int)
    (h0 : 0 < peak + q.length + c.margin) (hd : 0 < peak + d + q.length + c.margin) :
    refine c (Coma.Proofs.shiftRef d ref) q rev (peak + d) = (refine c ref q rev peak).map (List.map fun p => (p.1 + d, p.2)) :=
  Coma.Proofs.refine_shift_pos c ref q rev peak d h0 hd

/-- without the hypothesis the claim is false, for a reason worth knowing: `vectorisePositions` reads a window end of
    exactly 0 as "no end given" (`end or positions[-1]`) and extends the window to the last label.  Reachable only with
    peak = |query| = margin = 0. -/
theorem C16_secondary_translation_zero_end_counterexample :
    ¬ ∀ (c : SecCfg) (ref q : OMap) (rev : Bool) (peak d : Int),
      refine c (Coma.Proofs.shiftRef d ref) q rev (peak + d) = (refine c ref q rev peak).map (List.map fun p => (p.1 + d, p.2)) :=
  Coma.Proofs.refine_shift_false

/-- … and so does the whole derivation of a seed (`deriveSeed`: reference lookup, refinement, the top-ten bookkeeping
    with its `derived / reordered / ambiguous / MISMATCH` status): the translated reference and primary peak give the
    translated seed with the same status.  With `C04_translation_invariant` the whole pipeline AFTER the selection of the
    primary peaks is translation-equivariant. -/
theorem C16_seed_translation (c : SecCfg) (r q : OMap) (s : PSeed) (d : Int) (hid : r.id = s.refId)
    (h0 : 0 < s.primary + q.length + c.margin) (hd : 0 < s.primary + d + q.length + c.margin) :
    deriveSeed c [Coma.Proofs.shiftRef d r] q (Coma.Proofs.shiftPSeed d s)
      = (deriveSeed c [r] q s).map (fun p => (Coma.Proofs.shiftSeed d p.1, p.2)) :=
  Coma.Proofs.deriveSeed_shift c r q s d hid h0 hd

end Coma.Props
