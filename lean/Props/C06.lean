/-
  Props/C06.lean — PROPERTY THEOREMS for C06 (a noise-free copy of an interior reference region
  is placed exactly).  PARTIAL: the theorems carry the LOGIC — given a seed within 200 bp of the
  true offset the candidate is exactly the true pairs; the secondary correlation of an exact copy
  is maximal at the true lag and a maximal plateau flanked by lower samples is returned as a seed
  (the secondary stage is inside the model, `Coma/Peaks.lean`) —; that the PRIMARY float
  correlation selects a peak near the true placement, and that the maximal plateau of the secondary
  correlation lies within 200 bp of it, is exercised by the harness's sweep over the property's
  stated domain (which also checks the theorem's hypothesis on every instance) and by the REFINE /
  PRIMARY streams with planted copies.

  Models: `alignerAlign` with `defaultParams` (sp 1000, dp 1, su −250, d 1500, ms 1000, bs 1200),
  `toBp` (bin centre, src/correlation/optical_map.py:26-28), `bestRow`.
  Quantifier: every reference with label spacing ≥ 2000, every window of n ≥ 2 consecutive labels
  (the property needs ≥ 15), both strands, every seed within 200 bp, any chain configuration.
-/
import Props.Defs
import Props.C05
import Props.C16
import Proofs.Exact
import Proofs.Corr
import Proofs.PeaksMax
import Proofs.CopySeed
import Proofs.CopySeedRev
namespace Coma.Props
open Coma Coma.Spec

/-- exact placement given a seed within 200 bp: exactly the true label-to-label pairs, each at
    offset seed − true offset (hence within 200 bp of the seed diagonal), no HitEnum gaps (n
    matches), confidence n·(1000 − |offset|), on that reference and strand -/
theorem C06_exact_given_seed (ref : OMap) (hshift : ref.shift = 0)
    (hsp : ref.positions.Pairwise (fun a b => a + 2000 ≤ b))
    (i0 n : Nat) (hn : 2 ≤ n) (hwin : i0 + n ≤ ref.positions.length)
    (qid : Int) (rev : Bool) (s w0 : Int) (C : ChainCfg) (it : Int)
    (hw0 : ref.positions[i0]? = some w0) (hs : (s - w0).natAbs ≤ 200) :
    ∃ row, alignerAlign defaultParams C ref (copyQuery qid ((ref.positions.drop i0).take n) rev) [s] rev it = .ok row ∧
      sitePairs row.pairs = truePairs i0 n rev ∧
      (∀ p ∈ row.pairs, p.shift = s - w0) ∧
      row.confidence = (n : Int) * (1000 - ((s - w0).natAbs : Int)) ∧
      hitEnums row.pairs = .ok (List.replicate n Hit.M) ∧
      row.referenceId = ref.id ∧ row.rev = rev :=
  Coma.Proofs.exact_copy ref hshift hsp i0 n hn hwin qid rev s w0 C it hw0 hs

/-- a correlation bin converts to a coordinate within half a resolution of every position of the
    bin (so a seed found in the right bin is within resolution/2 ≤ 50 bp of the true offset at the
    secondary resolution 100) -/
theorem C06_bin_centre (bin res start : Int) (hres : 1 ≤ res) :
    start + bin * res ≤ toBp bin res start ∧ toBp bin res start < start + (bin + 1) * res ∧
    2 * (toBp bin res start - (start + bin * res)) ≤ res ∧
    2 * ((start + (bin + 1) * res - 1) - toBp bin res start) ≤ res :=
  C16_bin_centre bin res start hres

/-- the exact candidate is reported unless another candidate has strictly higher confidence or
    an equal one earlier in seed order -/
theorem C06_wins (rows : List Row) (r : Row) (h : bestRow rows = some r) :
    ∃ l1 l2, rows = l1 ++ r :: l2 ∧ (∀ x ∈ l1, x.confidence < r.confidence) ∧ (∀ x ∈ l2, x.confidence ≤ r.confidence) :=
  (C05_best_candidate rows).2 r h

/-! ### the arithmetic of seeding (what `scipy.signal.correlate` computes exactly; `find_peaks` is runtime)

`corrValid ref q` models `correlate(reference, query, mode='valid')` of two bit vectors as the exact
integer overlap count (the harness compares it with the rounded FFT result on every run). -/

/-- no lag of the correlation scores more than the number of query labels, and a lag at which
    every query label meets a reference label attains that maximum: the true bin is a global
    maximum of the raw correlation -/
theorem C06_corr_peak (ref q : List Nat) (hr : Coma.Proofs.Bits ref) (hq : Coma.Proofs.Bits q) (k : Nat)
    (hk : k + q.length ≤ ref.length) (hm : ∀ j, q.getD j 0 = 1 → ref.getD (k + j) 0 = 1) :
    (corrValid ref q)[k]? = some (sumNat q) ∧ ∀ c ∈ corrValid ref q, c ≤ sumNat q :=
  ⟨Coma.Proofs.corr_at_match ref q hq k hk hm, fun c hc => Coma.Proofs.corr_le_sum ref q hr c hc⟩

/-- the normalised correlation (2·overlap / (window labels + query labels)) never exceeds 1 and is
    exactly 1 at the lags where the reference window is an exact copy of the query: for an exact
    copy the true bin reaches the largest value the normalised correlation can take -/
theorem C06_normalised_peak (ref q : List Nat) (hr : Coma.Proofs.Bits ref) (hq : Coma.Proofs.Bits q) :
    (∀ x ∈ normalised ref q, x.1 ≤ x.2) ∧
    ∀ k, k + q.length ≤ ref.length → ∀ x, (normalised ref q)[k]? = some x →
      (x.1 = x.2 ↔ (ref.drop k).take q.length = q) :=
  ⟨fun x hx => Coma.Proofs.normalised_le_one ref q hr hq x hx,
   fun k hk x hx => Coma.Proofs.normalised_eq_one_iff ref q hr hq k hk x hx⟩

theorem C06_corr_length (ref q : List Nat) (h : q.length ≤ ref.length) :
    (corrValid ref q).length = ref.length - q.length + 1 :=
  Coma.Proofs.corrValid_length ref q h

/-- the secondary correlation exactly as `refine` computes it (`scipy.signal.correlate` on the two blurred
    integer vectors): where the query vector is covered bit for bit by the reference window vector — an
    exact copy at lag `k` — it takes the largest value any lag can take -/
theorem C06_secondary_copy_max (rs qs corr : List Nat) (k : Nat) (hr : Coma.Proofs.Bits rs) (hq : Coma.Proofs.Bits qs)
    (hk : k + qs.length ≤ rs.length) (hc : correlate rs qs = .ok corr)
    (hcov : ∀ j, j < qs.length → qs.getD j 0 = 1 → rs.getD (k + j) 0 = 1) :
    corr[k]? = some (sumNat qs) ∧ ∀ y ∈ corr, y ≤ sumNat qs :=
  Coma.Proofs.correlate_copy_max rs qs corr k hr hq hk hc hcov

/-- and a plateau of the global maximum (at least the height threshold) with a sample of at most 19/20 of
    it on either side passes `find_peaks` as `refine` calls it: its midpoint becomes a seed -/
theorem C06_maximum_is_a_seed (thr : Rat) (x : List Int) (l r : Nat) (v : Int)
    (hpl : Coma.Proofs.IsPlateau x l r) (hv : x[l]? = some v) (hmax : maxInit0 x = v) (hthr : thr ≤ (v : Rat))
    (hleft : ∃ i y, i < l ∧ x[i]? = some y ∧ 20 * y ≤ 19 * v)
    (hright : ∃ j y, r < j ∧ x[j]? = some y ∧ 20 * y ≤ 19 * v) :
    ((l + r) / 2, v) ∈ findPeaksSecondary thr x :=
  Coma.Proofs.findPeaks_max_plateau thr x l r v hpl hv hmax hthr hleft hright

/-- non-vacuity of the two: a three-label molecule against a reference that contains it (bins of 100 bp,
    blur 1): the correlation peaks with the number of set query bits (7) and the peak is the seed -/
example : (refineCorrelation { res := 100, blur := 1, margin := 600, thr := 5, keep := 10 }
            { id := 1, length := 4000, positions := [300, 1000, 1700, 2100, 3300] }
            { id := 2, length := 1101, positions := [0, 700, 1100] } false 1000).toOption
          = some [2, 2, 2, 2, 3, 5, 7, 5, 3, 2, 3, 3, 3] ∧
    findPeaksSecondary 5 [2, 2, 2, 2, 3, 5, 7, 5, 3, 2, 3, 3, 3] = [(6, 7)] := by decide +kernel

/-- THE SECONDARY STAGE PLACES AN EXACT COPY (label level, default resolution 100 bp and blur 4, forward strand):
    if the query's labels are an exact copy of `n ≥ 13` consecutive reference labels whose spacing is at least 2 kb,
    the refinement window starts at least 500 bp before the first copied label and contains the reference label
    that follows the copied window (`CopyInWindow`), then among the peaks that pass `find_peaks` in `refine` there is
    one whose bin centre is within 200 bp of the true placement `ref.positions[i]` — a seed that satisfies the
    hypothesis of `C06_exact_given_seed`.  (The proof shows the peak at the true lag or the next one, i.e. between
    50 bp before and 149 bp after the true placement.) -/
theorem C06_secondary_seed_near_truth (c : SecCfg) (ref q : OMap) (peak : Int) (i n : Nat)
    (H : Coma.Proofs.CopyInWindow c ref q peak i n) :
    ∃ corr, refineCorrelation c ref q false peak = .ok corr ∧
      ∃ p h, (p, h) ∈ findPeaksSecondary c.thr (corr.map Int.ofNat) ∧
        toBp (p : Int) 100 (peak - c.margin) - ref.positions.getD i 0 ≤ 200 ∧
        ref.positions.getD i 0 - toBp (p : Int) 100 (peak - c.margin) ≤ 200 :=
  Coma.Proofs.secondary_seed_near_copy c ref q peak i n H

/-- … AND ON THE OTHER STRAND: the molecule given to COMA is the mirror image of the exact copy `q0` (trimmed) and is
    refined on the '-' strand (its bit vector is reversed before the correlation; off the lattice every label's bin may
    move by one against the forward vector).  A peak passing `find_peaks` lies at the true lag or next to it on either
    side, i.e. its bin centre is between 150 bp before and 149 bp after the true placement. -/
theorem C06_secondary_seed_near_truth_reverse (c : SecCfg) (ref q0 : OMap) (peak : Int) (i n : Nat)
    (H : Coma.Proofs.CopyInWindow c ref q0 peak i n) (hlen : q0.length = lastD 0 q0.positions + 1) :
    ∃ corr, refineCorrelation c ref q0.mirror true peak = .ok corr ∧
      ∃ p h, (p, h) ∈ findPeaksSecondary c.thr (corr.map Int.ofNat) ∧
        toBp (p : Int) 100 (peak - c.margin) - ref.positions.getD i 0 ≤ 200 ∧
        ref.positions.getD i 0 - toBp (p : Int) 100 (peak - c.margin) ≤ 200 :=
  Coma.Proofs.secondary_seed_near_copy_rev c ref q0 peak i n H hlen

/-- non-vacuity of `CopyInWindow`: 15 reference labels 2 100 bp apart, the query copies labels 1..13, default
    secondary parameters, primary peak 700 bp off -/
example : Coma.Proofs.CopyInWindow {} ⟨1, 40000, (List.range 15).map (fun (k : Nat) => (1000 + 2100 * (k : Int) : Int)), 0⟩
    ⟨2, 25201, (List.range 13).map (fun (k : Nat) => (2100 * (k : Int) : Int)), 0⟩ 3800 1 13 where
  res := rfl
  blur := rfl
  thr := by decide
  many := by decide
  gaps := by decide
  nonneg := by decide
  inside := by decide
  copy := by decide
  start := by decide
  next := by decide
  stopnz := by decide

/-- non-vacuity: a concrete instance of the hypotheses (10 labels, window of 5, reverse strand,
    seed 200 bp off) -/
example : (alignerAlign defaultParams {} ⟨1, 100000, [1000, 5000, 9000, 12000, 20000, 23000, 30000, 40000, 42500, 50000], 0⟩
    (copyQuery 7 [9000, 12000, 20000, 23000, 30000] true) [8800] true 1).toOption.map (fun r => (sitePairs r.pairs, r.confidence)) =
    some ([(3, 5), (4, 4), (5, 3), (6, 2), (7, 1)], 4000) := by decide +kernel

end Coma.Props
