/-
  Props/C05.lean — PROPERTY THEOREMS for C05 (at most one record per query: the best-scoring
  candidate, in query-id order).  Statements only; proofs in Proofs/Select.lean.

  Models: `bestRow` (src/workflow_coordinator.py:79-81), `filterBestPerQuery`
  (src/alignment/alignment_results.py:36-42), `selectPeaks` (peaks_selector.py:18-21, see C16),
  `execute` (both coordinators + Program.run: multi_pass_workflow_coordinator.py:27-59,
  program.py:42-49).  Quantifier: all row lists, all modes, all seed tables.
-/
import Props.Defs
import Proofs.Select
namespace Coma.Props
open Coma Coma.Spec

/-- the first-pass record of a query is a maximum-confidence candidate, the first one among ties -/
theorem C05_best_candidate (rows : List Row) :
    (bestRow rows = none ↔ rows = []) ∧
    ∀ r, bestRow rows = some r →
      ∃ l1 l2, rows = l1 ++ r :: l2 ∧ (∀ x ∈ l1, x.confidence < r.confidence) ∧ (∀ x ∈ l2, x.confidence ≤ r.confidence) :=
  Coma.Proofs.bestRow_spec rows

/-- one row per query id, the highest-confidence one, in ascending id order; idempotent -/
theorem C05_filter_unique_sorted (rows : List Row) :
    StrictAscending ((filterBestPerQuery rows).map (·.queryId)) ∧
    (∀ r ∈ filterBestPerQuery rows, r ∈ rows) ∧
    (∀ x ∈ rows, ∃ r ∈ filterBestPerQuery rows, r.queryId = x.queryId ∧ x.confidence ≤ r.confidence) ∧
    filterBestPerQuery (filterBestPerQuery rows) = filterBestPerQuery rows :=
  Coma.Proofs.filter_spec rows

/-- the main file of every mode has at most one record per query, ascending; so have the
    first- and second-pass files of 'separate' and 'all' -/
theorem C05_files_unique (cfg : Cfg) (mode : Mode) (refs : List OMap) (t : SeedTable) (qs : List OMap) (it : Int)
    (out : Output) (h : execute cfg mode refs t qs it = .ok out) :
    StrictAscending (out.main.map (·.queryId)) ∧
    ((mode = .separate ∨ mode = .all) → ∀ f ∈ out.extra, StrictAscending (f.2.map (·.queryId))) :=
  Coma.Proofs.execute_files_unique cfg mode refs t qs it out h

/-- 'best' mode: a query has a record exactly when its first- or second-pass alignment exists -/
theorem C05_best_mode (cfg : Cfg) (refs : List OMap) (t : SeedTable) (qs : List OMap) (it : Int)
    (first second : List Row) (out : Output)
    (h1 : executeSingle cfg refs t qs it = .ok first) (h2 : secondPass cfg refs t qs first it = .ok second)
    (h : execute cfg .best refs t qs it = .ok out) :
    ∀ q, q ∈ out.main.map (·.queryId) ↔ q ∈ (first ++ second).map (·.queryId) :=
  Coma.Proofs.execute_best_ids cfg refs t qs it first second out h1 h2 h

/-- rows surviving the first pass always have a pair -/
theorem C05_rows_have_pairs (cfg : Cfg) (refs : List OMap) (t : SeedTable) (qs : List OMap) (it : Int)
    (rows : List Row) (h : executeSingle cfg refs t qs it = .ok rows) : ∀ r ∈ rows, r.pairs ≠ [] :=
  Coma.Proofs.executeSingle_pairs cfg refs t qs it rows h

end Coma.Props
