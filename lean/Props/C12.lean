/-
  Props/C12.lean — PROPERTY THEOREMS for C12 (pairing along a seed diagonal partitions labels
  and pairs nearest neighbours).  Statements only; proofs in Proofs/Pairing.lean and
  Proofs/PairingOrder.lean.

  `engineAlign md ref qry start stop rev it` is the model of `AlignerEngine.align`
  (src/alignment/aligner.py:36-78 with AlignedPair.deduplicate, alignment_position.py:113-123).
  Quantifier: all maps with ascending label coordinates (coincident labels allowed), all seed
  offsets, both strands, fragments with label-number offsets, every maxDistance ≥ 0.
-/
import Props.Defs
import Proofs.Pairing
import Proofs.PairingOrder
namespace Coma.Props
open Coma Coma.Spec

/-- output is in ascending position order -/
theorem C12_sorted (md : Int) (ref qry : OMap) (start stop : Int) (rev : Bool) (it : Int) :
    Ascending ((engineAlign md ref qry start stop rev it).map APos.abs) :=
  Coma.Proofs.engine_sorted md ref qry start stop rev it

/-- every reference label of the search window is returned exactly once (paired or unpaired) -/
theorem C12_partition_ref (md : Int) (ref qry : OMap) (start stop : Int) (rev : Bool) (it : Int) :
    ((engineAlign md ref qry start stop rev it).filterMap refLabel?).Perm (refWindow md ref start stop) :=
  Coma.Proofs.engine_partition_ref md ref qry start stop rev it

/-- every query label is returned exactly once (paired or unpaired) -/
theorem C12_partition_qry (md : Int) (ref qry : OMap) (start stop : Int) (rev : Bool) (it : Int) :
    ((engineAlign md ref qry start stop rev it).filterMap qryLabel?).Perm (qry.labels rev) :=
  Coma.Proofs.engine_partition_qry md ref qry start stop rev it

/-- the search window is exactly the labels within maxDistance of [start, stop] -/
theorem C12_window (md : Int) (ref : OMap) (start stop : Int) (hr : Ascending ref.positions) (l : Lbl) :
    l ∈ refWindow md ref start stop ↔ (l ∈ ref.labels false ∧ start - md ≤ l.pos ∧ l.pos ≤ stop + md) :=
  Coma.Proofs.refWindow_mem md ref start stop hr l

/-- every pair joins real labels, carries offset = query position − (reference position − seed),
    and lies within maxDistance of the diagonal (inclusive) -/
theorem C12_within (md : Int) (ref qry : OMap) (start stop : Int) (rev : Bool) (it : Int)
    (hq : Ascending qry.positions) (p : Pr)
    (hp : APos.pair p ∈ engineAlign md ref qry start stop rev it) :
    p.r ∈ refWindow md ref start stop ∧ p.q ∈ qry.labels rev ∧
    p.shift = offset start p.r p.q ∧ -md ≤ p.shift ∧ p.shift ≤ md :=
  Coma.Proofs.engine_within md ref qry start stop rev it hq p hp

/-- unpaired query positions remember the seed -/
theorem C12_unpaired_seed (md : Int) (ref qry : OMap) (start stop : Int) (rev : Bool) (it : Int)
    (q : Lbl) (s : Int) (h : APos.uqry q s ∈ engineAlign md ref qry start stop rev it) : s = start :=
  Coma.Proofs.engine_uqry_seed md ref qry start stop rev it q s h

/-- pairs are one-to-one -/
theorem C12_one_to_one (md : Int) (ref qry : OMap) (start stop : Int) (rev : Bool) (it : Int) :
    ((pairsOf (engineAlign md ref qry start stop rev it)).map (fun p => p.r.site)).Nodup ∧
    ((pairsOf (engineAlign md ref qry start stop rev it)).map (fun p => p.q.site)).Nodup :=
  Coma.Proofs.engine_one_to_one md ref qry start stop rev it

/-- the `iteration` counter of the engine is unobservable once `source` is erased (used by C09) -/
theorem C12_iteration_irrelevant (md : Int) (ref qry : OMap) (start stop : Int) (rev : Bool) (it it' : Int) :
    (engineAlign md ref qry start stop rev it).map APos.eraseSrc =
    (engineAlign md ref qry start stop rev it').map APos.eraseSrc :=
  Coma.Proofs.engine_iteration_irrelevant md ref qry start stop rev it it'

/-- pairs are order-preserving: they never cross -/
theorem C12_order_preserving (md : Int) (ref qry : OMap) (start stop : Int) (rev : Bool) (it : Int)
    (hr : Ascending ref.positions) (hq : Ascending qry.positions) (p1 p2 : Pr)
    (h1 : APos.pair p1 ∈ engineAlign md ref qry start stop rev it)
    (h2 : APos.pair p2 ∈ engineAlign md ref qry start stop rev it)
    (hlt : p1.r.pos < p2.r.pos) : p1.q.pos ≤ p2.q.pos :=
  Coma.Proofs.PO.engine_order_preserving md ref qry start stop rev it hr hq p1 p2 h1 h2 hlt

/-- reference and query labels that are strictly each other's nearest partner within
    maxDistance are paired -/
theorem C12_mutual_nearest (md : Int) (ref qry : OMap) (start stop : Int) (rev : Bool) (it : Int)
    (hr : Ascending ref.positions) (hq : Ascending qry.positions) (r q : Lbl)
    (hrw : r ∈ refWindow md ref start stop) (hql : q ∈ qry.labels rev)
    (hd : (offset start r q).natAbs ≤ md)
    (hnr : ∀ r' ∈ refWindow md ref start stop, r' ≠ r → (offset start r q).natAbs < (offset start r' q).natAbs)
    (hnq : ∀ q' ∈ qry.labels rev, q' ≠ q → (offset start r q).natAbs < (offset start r q').natAbs) :
    ∃ p, APos.pair p ∈ engineAlign md ref qry start stop rev it ∧ p.r = r ∧ p.q = q :=
  Coma.Proofs.PO.engine_mutual_nearest md ref qry start stop rev it hr hq r q hrw hql hd hnr hnq

/-- non-vacuity / inclusiveness: a label exactly at maxDistance is paired (|offset| = md = 2) -/
example : engineAlign 2 ⟨1, 20, [5, 12], 0⟩ ⟨2, 8, [0, 7], 0⟩ 3 11 false 1 =
    [.pair ⟨⟨1, 5⟩, ⟨1, 0⟩, -2, 1⟩, .pair ⟨⟨2, 12⟩, ⟨2, 7⟩, -2, 1⟩] := by decide +kernel

end Coma.Props
