/-
  Props/C03.lean — PROPERTY THEOREMS for C03 (HitEnum is a faithful run-length encoding of the
  aligned pairs).  Statements only; proofs in Proofs/Cigar.lean.

  `hitEnums` models the reference-index walk `__getHitEnums`
  (src/alignment/alignment_results.py:134-151), `aggregate` the run-length aggregation
  `__aggregateHitEnums` (lines 159-171, as repaired by the `fix:` commit), `replay` is the
  decoder the property talks about.
  Quantifier: every valid matching with ≥ 1 pair (any number of pairs, any pattern of skipped
  labels on either map), both orientations.
-/
import Props.Defs
import Proofs.Cigar
import Proofs.CigarCounts
namespace Coma.Props
open Coma Coma.Spec

/-- the walk and the aggregation never raise on a valid matching, and replaying the runs from
    the first pair reproduces exactly the listed pairs -/
theorem C03_roundtrip (rev : Bool) (p : Pr) (ps : List Pr) (hv : ValidMatching rev (sitePairs (p :: ps))) :
    ∃ hs rs, hitEnums (p :: ps) = .ok hs ∧ aggregate hs = .ok rs ∧
      replay rev p.r.site p.q.site (expandRuns rs) = some (sitePairs (p :: ps)) :=
  Coma.Proofs.cigar_roundtrip rev p ps hv

/-- run-length aggregation is lossless -/
theorem C03_expand_aggregate (hs : List Hit) (rs : List (Nat × Hit)) (h : aggregate hs = .ok rs) :
    expandRuns rs = hs :=
  Coma.Proofs.expand_aggregate hs rs h

/-- the operation list starts and ends with M -/
theorem C03_starts_ends_M (rev : Bool) (p : Pr) (ps : List Pr) (hv : ValidMatching rev (sitePairs (p :: ps)))
    (hs : List Hit) (h : hitEnums (p :: ps) = .ok hs) :
    hs.head? = some Hit.M ∧ hs.getLast? = some Hit.M :=
  Coma.Proofs.hits_start_end_M rev p ps hv hs h

/-- adjacent runs never repeat an operation, every run has a positive count, and the run list
    is non-empty; first and last runs are M runs -/
theorem C03_no_adjacent_equal (hs : List Hit) (rs : List (Nat × Hit)) (h : aggregate hs = .ok rs) :
    rs ≠ [] ∧ (∀ r ∈ rs, 0 < r.1) ∧ Consec (fun a b => a.2 ≠ b.2) rs ∧
    (rs.head?.map (·.2) = hs.head?) ∧ (rs.getLast?.map (·.2) = hs.getLast?) :=
  Coma.Proofs.aggregate_runs hs rs h

/-- the rendered HitEnum of a record with a pair is a non-empty string -/
theorem C03_nonempty (rev : Bool) (p : Pr) (ps : List Pr) (hv : ValidMatching rev (sitePairs (p :: ps))) :
    ∃ s, cigarOf aggregate (p :: ps) = .ok s ∧ s ≠ "" :=
  Coma.Proofs.cigar_nonempty rev p ps hv

/-- what the unrepaired loop did (F1): a one-pair record got the empty run list -/
theorem C03_unrepaired_counterexample : (aggregateBuggy [Hit.M]).toOption = some [] := by decide

/-- non-vacuity: the example from the project's own test data -/
example : (cigarOf aggregate [⟨⟨1, 0⟩, ⟨1, 0⟩, 0, 0⟩, ⟨⟨3, 0⟩, ⟨3, 0⟩, 0, 0⟩]).toOption = some "1M1I1D1M" := by decide +kernel
example : ValidMatching false (sitePairs [⟨⟨1, 0⟩, ⟨1, 0⟩, 0, 0⟩, ⟨⟨3, 0⟩, ⟨3, 0⟩, 0, 0⟩]) := by
  simp [ValidMatching, sitePairs]

/-- the operation string accounts for every label between the first and the last pair exactly
    once: one M per listed pair, M+D = number of reference labels spanned, M+I = number of query
    labels spanned -/
theorem C03_counts (rev : Bool) (p : Pr) (ps : List Pr) (hv : ValidMatching rev (sitePairs (p :: ps)))
    (hs : List Hit) (h : hitEnums (p :: ps) = .ok hs) :
    hs.count Hit.M = (p :: ps).length ∧
    ((hs.count Hit.M + hs.count Hit.D : Nat) : Int) = ((p :: ps).getLast (by simp)).r.site - p.r.site + 1 ∧
    ((hs.count Hit.M + hs.count Hit.I : Nat) : Int) = (((p :: ps).getLast (by simp)).q.site - p.q.site).natAbs + 1 :=
  Coma.Proofs.cigar_counts rev p ps hv hs h

/-- non-vacuity of `C03_counts`: a reverse-strand matching of three pairs (2,9),(4,8),(5,5) with a
    skipped reference label (3) and two skipped query labels (7,6): M D M I I M, so
    M = 3, M+D = 4 = 5-2+1, M+I = 5 = |5-9|+1 -/
example : (hitEnums [⟨⟨2, 0⟩, ⟨9, 0⟩, 0, 0⟩, ⟨⟨4, 0⟩, ⟨8, 0⟩, 0, 0⟩, ⟨⟨5, 0⟩, ⟨5, 0⟩, 0, 0⟩]).toOption =
    some [Hit.M, Hit.D, Hit.M, Hit.I, Hit.I, Hit.M] := by decide +kernel
example : ((hitEnums [⟨⟨2, 0⟩, ⟨9, 0⟩, 0, 0⟩, ⟨⟨4, 0⟩, ⟨8, 0⟩, 0, 0⟩, ⟨⟨5, 0⟩, ⟨5, 0⟩, 0, 0⟩]).toOption.map
    fun hs => (hs.count Hit.M, hs.count Hit.D, hs.count Hit.I)) = some (3, 1, 2) := by decide +kernel
example : ValidMatching true (sitePairs [⟨⟨2, 0⟩, ⟨9, 0⟩, 0, 0⟩, ⟨⟨4, 0⟩, ⟨8, 0⟩, 0, 0⟩, ⟨⟨5, 0⟩, ⟨5, 0⟩, 0, 0⟩]) := by
  simp [ValidMatching, sitePairs]

/-- the numbers written in the HitEnum string: the M runs add up to the number of listed pairs, M and D runs
    together to the number of reference labels spanned, M and I runs together to the number of query labels spanned -/
theorem C03_run_totals (rev : Bool) (p : Pr) (ps : List Pr) (hv : ValidMatching rev (sitePairs (p :: ps)))
    (hs : List Hit) (rs : List (Nat × Hit)) (h : hitEnums (p :: ps) = .ok hs) (ha : aggregate hs = .ok rs) :
    Coma.Proofs.runTotal Hit.M rs = (p :: ps).length ∧
    ((Coma.Proofs.runTotal Hit.M rs + Coma.Proofs.runTotal Hit.D rs : Nat) : Int) = ((p :: ps).getLast (by simp)).r.site - p.r.site + 1 ∧
    ((Coma.Proofs.runTotal Hit.M rs + Coma.Proofs.runTotal Hit.I rs : Nat) : Int) = (((p :: ps).getLast (by simp)).q.site - p.q.site).natAbs + 1 :=
  Coma.Proofs.cigar_run_totals rev p ps hv hs rs h ha

/-- non-vacuity of `C03_run_totals`: the same reverse matching (2,9),(4,8),(5,5) is written as the runs
    1M 1D 1M 2I 1M; M runs total 3, D runs 1, I runs 2 -/
example : ((hitEnums [⟨⟨2, 0⟩, ⟨9, 0⟩, 0, 0⟩, ⟨⟨4, 0⟩, ⟨8, 0⟩, 0, 0⟩, ⟨⟨5, 0⟩, ⟨5, 0⟩, 0, 0⟩]).toOption.bind
    fun hs => (aggregate hs).toOption) =
    some [(1, Hit.M), (1, Hit.D), (1, Hit.M), (2, Hit.I), (1, Hit.M)] := by decide +kernel
example : (Coma.Proofs.runTotal Hit.M [(1, Hit.M), (1, Hit.D), (1, Hit.M), (2, Hit.I), (1, Hit.M)],
    Coma.Proofs.runTotal Hit.D [(1, Hit.M), (1, Hit.D), (1, Hit.M), (2, Hit.I), (1, Hit.M)],
    Coma.Proofs.runTotal Hit.I [(1, Hit.M), (1, Hit.D), (1, Hit.M), (2, Hit.I), (1, Hit.M)]) = (3, 1, 2) := by decide +kernel

end Coma.Props
