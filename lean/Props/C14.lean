/-
  Props/C14.lean — PROPERTY THEOREMS for C14 (the chain is a best-scoring admissible
  order-respecting selection of segments).  Statements only; proofs live in Proofs/Chain.lean.

  `dpChain score join pre` is the model of the dynamic programme + back-tracking of
  `SegmentChainer.chain` (src/alignment/segment_chainer.py:23-40), generic in the item type;
  `chainSegs` instantiates it with the real pre-order key and the real sequentiality scorer
  `joinScore` (lines 48-72; `none` = -inf).
  Quantifier: every list of items of every length, every score and join function.
-/
import Props.Defs
import Proofs.Chain
import Proofs.Extra
namespace Coma.Props
open Coma Coma.Spec

/-- the chain picked by the DP, as items of the pre-ordered list -/
def chosen {α} (score : α → Rat) (join : α → α → Option Rat) (pre : List α) : List α :=
  (dpChain score join pre).1.filterMap (fun i => pre[i]?)

/-- indices are non-empty, strictly increasing and in range: every item at most once, in
    pre-order -/
theorem C14_indices {α} (score : α → Rat) (join : α → α → Option Rat) (pre : List α) (h : pre ≠ []) :
    (dpChain score join pre).1 ≠ [] ∧
    (dpChain score join pre).1.Pairwise (· < ·) ∧
    ∀ i ∈ (dpChain score join pre).1, i < pre.length :=
  Coma.Proofs.dp_indices score join pre h

theorem C14_subsequence {α} (score : α → Rat) (join : α → α → Option Rat) (pre : List α) :
    (chosen score join pre).Sublist pre :=
  Coma.Proofs.dp_sublist score join pre

/-- the reported total is the total of the chosen chain and it is finite (never -inf) -/
theorem C14_finite {α} (score : α → Rat) (join : α → α → Option Rat) (pre : List α) (h : pre ≠ []) :
    chainTotal score join (chosen score join pre) = some (dpChain score join pre).2 :=
  Coma.Proofs.dp_total score join pre h

/-- optimality over ALL non-empty order-respecting selections -/
theorem C14_optimal {α} (score : α → Rat) (join : α → α → Option Rat) (pre : List α)
    (c : List α) (hc : c.Sublist pre) (hne : c ≠ []) :
    leOpt (chainTotal score join c) (dpChain score join pre).2 :=
  Coma.Proofs.dp_optimal score join pre c hc hne

/-- consecutive chosen members never have a join of -inf -/
theorem C14_no_inf_join {α} (score : α → Rat) (join : α → α → Option Rat) (pre : List α) (h : pre ≠ []) :
    Consec (fun a b => join a b ≠ none) (chosen score join pre) :=
  Coma.Proofs.dp_no_inf_join score join pre h

/-- a join score is never positive (any multiplier ≥ 0, both variants) -/
theorem C14_join_nonpos (mult : Rat) (variant : Int) (prev cur : Ends) (hm : 0 ≤ mult) (v : Rat)
    (h : joinScore mult variant prev cur = some v) : v ≤ 0 :=
  Coma.Proofs.joinScore_nonpos mult variant prev cur hm v h

/-- a perfectly contiguous join (zero distance on both maps) scores 0 -/
theorem C14_join_zero_contiguous (mult : Rat) (variant : Int) (prev cur : Ends)
    (hr : cur.s.r.pos = prev.e.r.pos)
    (hq : cur.s.q.pos = prev.e.q.pos)
    (hl : 0 ≤ min (cur.e.r.pos - cur.s.r.pos) (prev.e.r.pos - prev.s.r.pos)) :
    joinScore mult variant prev cur = some 0 :=
  Coma.Proofs.joinScore_zero mult variant prev cur hr hq hl

/-- a finite join means the overlap is at most half of the shorter segment on both maps -/
theorem C14_no_excess_overlap (mult : Rat) (variant : Int) (prev cur : Ends) (v : Rat)
    (h : joinScore mult variant prev cur = some v) :
    0 ≤ min (cur.e.r.pos - cur.s.r.pos) (prev.e.r.pos - prev.s.r.pos) + 2 * (cur.s.r.pos - prev.e.r.pos) ∧
    0 ≤ min (iabs (cur.e.q.pos - cur.s.q.pos)) (iabs (prev.e.q.pos - prev.s.q.pos)) +
        2 * (cur.s.q.pos - prev.e.q.pos) :=
  Coma.Proofs.joinScore_some_overlap mult variant prev cur v h

/-- `chainSegs`: a sub-selection of the non-empty segments in stable key order, then the empty
    segments unchanged; `none` exactly when a non-empty segment has no aligned pair -/
theorem C14_chainSegs_shape (P : Params) (C : ChainCfg) (segs out : List Seg)
    (h : chainSegs P C segs = some out) :
    ∃ ne : List (Seg × Ends), withEnds? (segs.filter (fun s => !s.isEmpty)) = some ne ∧
      ∃ sel : List (Seg × Ends), sel.Sublist (isort (fun (x : Seg × Ends) => x.2.key) ne) ∧
        out = sel.map (·.1) ++ segs.filter Seg.isEmpty :=
  Coma.Proofs.chainSegs_shape P C segs out h

theorem C14_chainSegs_none_iff (P : Params) (C : ChainCfg) (segs : List Seg) :
    chainSegs P C segs = none ↔ ∃ s ∈ segs, s.isEmpty = false ∧ s.pairs = [] :=
  Coma.Proofs.chainSegs_none_iff P C segs

/-- non-vacuity: a concrete 3-item instance where the middle item is skipped -/
example : (dpChain (fun (x : Nat) => (x : Rat)) (fun a b => if a + 1 = b then none else some (-1)) [5, 6, 7]).1 = [0, 2] := by
  decide +kernel

end Coma.Props

namespace Coma.Props
open Coma Coma.Spec

/-- the join score is blind to the strand: it reads coordinates only, never label numbers
    (after the `fix:` commit; used by C11) -/
theorem C14_join_strand_blind (mult : Rat) (variant : Int) (prev cur prev' cur' : Ends)
    (h1 : prev'.s.r.pos = prev.s.r.pos ∧ prev'.s.q.pos = prev.s.q.pos ∧ prev'.e.r.pos = prev.e.r.pos ∧ prev'.e.q.pos = prev.e.q.pos)
    (h2 : cur'.s.r.pos = cur.s.r.pos ∧ cur'.s.q.pos = cur.s.q.pos ∧ cur'.e.r.pos = cur.e.r.pos ∧ cur'.e.q.pos = cur.e.q.pos) :
    joinScore mult variant prev' cur' = joinScore mult variant prev cur := by
  obtain ⟨a1, a2, a3, a4⟩ := h1
  obtain ⟨b1, b2, b3, b4⟩ := h2
  simp only [joinScore, a1, a2, a3, a4, b1, b2, b3, b4]

/-- what the unrepaired scorer did (F9): two collinear reverse-strand segments (query labels
    numbered downwards) 10 kb apart were an "excessive overlap", their forward mirror was not -/
theorem C14_strand_signed_counterexample :
    joinScoreStrandSigned 0 0
      ⟨⟨⟨1, 0⟩, ⟨9, 0⟩, 0, 0⟩, ⟨⟨2, 5000⟩, ⟨8, 5000⟩, 0, 0⟩⟩
      ⟨⟨⟨3, 15000⟩, ⟨7, 15000⟩, 0, 0⟩, ⟨⟨4, 20000⟩, ⟨6, 20000⟩, 0, 0⟩⟩ = none ∧
    joinScoreStrandSigned 0 0
      ⟨⟨⟨1, 0⟩, ⟨1, 0⟩, 0, 0⟩, ⟨⟨2, 5000⟩, ⟨2, 5000⟩, 0, 0⟩⟩
      ⟨⟨⟨3, 15000⟩, ⟨3, 15000⟩, 0, 0⟩, ⟨⟨4, 20000⟩, ⟨4, 20000⟩, 0, 0⟩⟩ = some 0 := by
  decide +kernel

end Coma.Props

namespace Coma.Props
open Coma Coma.Spec

/-- C14 for the REAL chainer (`chainSegs` = the DP instantiated with the segment score and the
    real sequentiality scorer): the non-empty part of the result is an order-respecting selection
    of the key-ordered non-empty input segments whose total (segment scores + join scores) is
    finite and at least the total of EVERY non-empty order-respecting selection -/
theorem C14_chainSegs_optimal (P : Params) (C : ChainCfg) (segs out : List Seg) (ne : List (Seg × Ends))
    (h : chainSegs P C segs = some out)
    (hne : withEnds? (segs.filter (fun s => !s.isEmpty)) = some ne) (hnn : ne ≠ []) :
    ∃ sel : List (Seg × Ends), sel.Sublist (isort (fun (x : Seg × Ends) => x.2.key) ne) ∧ sel ≠ [] ∧
      out = sel.map (·.1) ++ segs.filter Seg.isEmpty ∧
      ∃ tot : Rat, Coma.Proofs.segChainTotal P C sel = some tot ∧
        ∀ c : List (Seg × Ends), c.Sublist (isort (fun (x : Seg × Ends) => x.2.key) ne) → c ≠ [] →
          leOpt (Coma.Proofs.segChainTotal P C c) tot :=
  Coma.Proofs.chainSegs_optimal P C segs out ne h hne hnn

end Coma.Props
