/-
  Props/C11.lean — PROPERTY THEOREMS for C11 (mirroring a query mirrors its first-pass
  alignment).  Statements only; proofs in Proofs/Mirror*.lean.

  Models: `OMap.mirror`, `OMap.labels` (src/correlation/optical_map.py:45-56), the whole candidate
  construction `alignerAlign`; the join score reads coordinates only after the `fix:` commit
  (src/alignment/segment_chainer.py:56-58, see C14_join_strand_blind).  Not modelled: that the
  seeds of a query and of its mirror image coincide (bit vectors of a commensurate lattice are
  mirror images) for the PRIMARY stage, which divides by a float array carrying FFT rounding noise —
  exercised by the harness on the real first pass.  The SECONDARY stage is in the model
  (`Coma/Peaks.lean`): `C11_correlation_input_mirror`, `C11_secondary_seeds_mirror` below.  With a
  strand-symmetric primary vector the primary cut itself is not equivariant: known finding KF-e.
  Quantifier: all maps, seed peak lists, strands and parameters, under `NoTies` (no reference
  label has two equidistant query partners within maxDistance — true on a lattice whose step
  exceeds twice maxPairDistance).
-/
import Props.Defs
import Proofs.Mirror
import Proofs.SeqMirror
namespace Coma.Props
open Coma Coma.Spec

/-- read on the other strand, the mirror image has the same label coordinates in the same order,
    with label k renumbered to n+1−k -/
theorem C11_labels_mirror (m : OMap) (rev : Bool) (hs : m.shift = 0) :
    m.mirror.labels (!rev) =
      (m.labels rev).map (fun l => ⟨(m.positions.length : Int) + 1 - l.site, l.pos⟩) :=
  Coma.Proofs.labels_mirror m rev hs

theorem C11_mirror_involutive (m : OMap) (h : Coma.Proofs.Trimmed m) :
    Coma.Proofs.Trimmed m.mirror ∧ m.mirror.mirror = m :=
  Coma.Proofs.mirror_trimmed m h

/-- the candidate built for the mirror image on the other strand from the same seed peaks is the
    mirror image of the candidate -/
theorem C11_equivariant (P : Params) (C : ChainCfg) (ref qry : OMap) (peaks : List Int) (rev : Bool) (it : Int)
    (ht : Coma.Proofs.Trimmed qry)
    (hnt : ∀ peak ∈ peaks, NoTies P.md peak (refWindow P.md ref peak (peak + qry.length)) (qry.labels rev)) :
    alignerAlign P C ref qry.mirror peaks (!rev) it =
      (alignerAlign P C ref qry peaks rev it).map (mirrorRow qry.positions.length) :=
  Coma.Proofs.alignerAlign_mirror P C ref qry peaks rev it ht hnt

/-- … which has the same reference labels and query coordinates, query label k ↦ n+1−k, the
    opposite orientation and the same confidence -/
theorem C11_mirror_row (n : Int) (r : Row) :
    (mirrorRow n r).confidence = r.confidence ∧ (mirrorRow n r).rev = !r.rev ∧
    (mirrorRow n r).pairs.map (fun p => (p.r, p.q.pos)) = r.pairs.map (fun p => (p.r, p.q.pos)) ∧
    (mirrorRow n r).pairs.map (fun p => p.q.site) = r.pairs.map (fun p => n + 1 - p.q.site) :=
  Coma.Proofs.mirrorRow_confidence n r

/-- pairing itself commutes with the renumbering -/
theorem C11_pairing_mirror (md : Int) (ref qry : OMap) (start stop : Int) (rev : Bool) (it : Int)
    (ht : Coma.Proofs.Trimmed qry) (hnt : NoTies md start (refWindow md ref start stop) (qry.labels rev)) :
    engineAlign md ref qry.mirror start stop (!rev) it =
      (engineAlign md ref qry start stop rev it).map (relabelAPos (fun k => (qry.positions.length : Int) + 1 - k) id) :=
  Coma.Proofs.engineAlign_mirror md ref qry start stop rev it ht hnt

/-- on a lattice commensurate with the resolution the bit vector of the mirror image is the reversed bit
    vector (binning is mirror-symmetric), and blurring commutes with reversal -/
theorem C11_vector_mirror (m : OMap) (res blurR : Int) (ht : Coma.Proofs.Trimmed m) (hres : 1 ≤ res)
    (hl : ∀ p ∈ m.positions, res ∣ p) :
    sequenceOf res blurR m.mirror.positions 0 none = (sequenceOf res blurR m.positions 0 none).map List.reverse :=
  Coma.Proofs.sequenceOf_mirror m res blurR ht hres hl

/-- so the array correlated for the mirror image on the other strand is the very same array -/
theorem C11_correlation_input_mirror (c : SecCfg) (q : OMap) (rev : Bool) (ht : Coma.Proofs.Trimmed q) (hres : 1 ≤ c.res)
    (hl : ∀ p ∈ q.positions, c.res ∣ p) :
    querySequence c q.mirror (!rev) = querySequence c q rev :=
  Coma.Proofs.querySequence_mirror c q rev ht hres hl

/-- and the secondary stage hands the aligner the same seeds for a molecule on one strand and for its
    mirror image on the other (every reference, every primary peak, every parameter setting) -/
theorem C11_secondary_seeds_mirror (c : SecCfg) (ref q : OMap) (rev : Bool) (peak : Int) (ht : Coma.Proofs.Trimmed q)
    (hres : 1 ≤ c.res) (hl : ∀ p ∈ q.positions, c.res ∣ p) :
    refine c ref q.mirror (!rev) peak = refine c ref q rev peak :=
  Coma.Proofs.refine_mirror c ref q rev peak ht hres hl

/-- non-vacuity: a trimmed lattice molecule, and off the lattice the vectors do differ -/
example : Coma.Proofs.Trimmed { id := 1, length := 1301, positions := [0, 200, 300, 900, 1300] } ∧
    (∀ p ∈ [0, 200, 300, 900, 1300], (100 : Int) ∣ p) := by
  refine ⟨⟨rfl, rfl, by decide, by simp [Ascending]⟩, by decide⟩
example : sequenceOf 100 0 ({ id := 1, length := 1302, positions := [0, 250, 300, 901, 1301] } : OMap).mirror.positions 0 none
    ≠ (sequenceOf 100 0 [0, 250, 300, 901, 1301] 0 none).map List.reverse := by decide +kernel

end Coma.Props
