/-
  Props/C08.lean — PROPERTY THEOREMS for C08 (output modes agree; joined records are justified
  by and faithful to their parts).  Statements only; proofs in Proofs/Modes.lean.

  Models: `execute` (mode dispatch, src/multi_pass_workflow_coordinator.py:27-59, 70-83 +
  Program.run), `resolveRows` (AlignmentResults.resolve, alignment_results.py:44-64),
  `checkOverlap` (lines 234-250), `joinRows` (lines 252-280, with the `fix:` validity check).
  Quantifier: all inputs / seed tables, all maxDifference values, the four multi-pass modes.

  FULL STATEMENT of the last clause (kept visible): "when the union of the two parts' pairs is
  itself a valid matching the joined record is exactly the union".  It is FALSE of the code:
  only `segments[0]` of each part enters the join (`C08_join_drops_segments_counterexample`,
  known finding KF-c), and two single-segment parts that interleave (the second-pass fragment
  deliberately re-uses the last 2-3 labels of the first-pass record) are cut at one index, which
  drops compatible pairs of the losing side (`C08_join_cuts_interleaving_counterexample`, known
  finding KF-d).  Proved instead: `C08_join_union_partial` for single-segment parts that do not
  interleave.
-/
import Props.Defs
import Proofs.Modes
namespace Coma.Props
open Coma Coma.Spec

/-- main file of 'all' = main file of 'joined'; its _1/_2 files = main/_1 files of 'separate' -/
theorem C08_mode_files (cfg : Cfg) (refs : List OMap) (t : SeedTable) (qs : List OMap) (it : Int)
    (oa oj os : Output)
    (ha : execute cfg .all refs t qs it = .ok oa) (hj : execute cfg .joined refs t qs it = .ok oj)
    (hs : execute cfg .separate refs t qs it = .ok os) :
    oa.main = oj.main ∧
    (∃ f1 f2 s1, oa.extra = [(1, f1), (2, f2)] ∧ os.extra = [(1, s1)] ∧ f1 = os.main ∧ f2 = s1) :=
  Coma.Proofs.mode_files cfg refs t qs it oa oj os ha hj hs

/-- the second-pass file carries AlignedRest = True on every record, the first-pass file False -/
theorem C08_aligned_rest_flags (cfg : Cfg) (refs : List OMap) (t : SeedTable) (qs : List OMap) (it : Int)
    (os : Output) (hs : execute cfg .separate refs t qs it = .ok os) :
    (∀ r ∈ os.main, r.alignedRest = false) ∧ (∀ f ∈ os.extra, ∀ r ∈ f.2, r.alignedRest = true) :=
  Coma.Proofs.aligned_rest_flags cfg refs t qs it os hs

/-- every input row is either un-joined or one of the two parts of exactly one joined row -/
theorem C08_resolve_partitions (P : Params) (d : Int) (rows joined separate : List Row)
    (h : resolveRows P d rows = .ok (joined, separate))
    (h2 : ∀ q r, (rows.filter (fun x => x.queryId = q ∧ x.referenceId = r)).length ≤ 2) :
    separate.length + 2 * joined.length = rows.length ∧ (∀ x ∈ separate, x ∈ rows) :=
  Coma.Proofs.resolveRows_partition P d rows joined separate h h2

/-- a joined record exists only for two rows of the same query on the same reference and strand
    whose reference gap is at most maxDifference -/
theorem C08_join_eligibility (P : Params) (d : Int) (rows joined separate : List Row)
    (h : resolveRows P d rows = .ok (joined, separate)) :
    ∀ j ∈ joined, ∃ x ∈ rows, ∃ y ∈ rows,
      x.queryId = y.queryId ∧ x.referenceId = y.referenceId ∧ x.rev = y.rev ∧
      iabs (max x.rStart y.rStart - min x.rEnd y.rEnd) ≤ d ∧
      joinRows P x y = .ok (some j) :=
  Coma.Proofs.resolveRows_eligibility P d rows joined separate h

/-- the joined record's pairs are a subset of the two parts' pairs, it keeps the ids,
    lengths and strand of the first part, and it is a valid matching with ≥ 1 pair -/
theorem C08_join_subset (P : Params) (a b j : Row) (h : joinRows P a b = .ok (some j)) :
    (∀ p ∈ j.pairs, p ∈ a.pairs ∨ p ∈ b.pairs) ∧
    j.queryId = a.queryId ∧ j.referenceId = a.referenceId ∧ j.rev = a.rev ∧
    j.queryLength = a.queryLength ∧ j.referenceLength = a.referenceLength ∧
    j.pairs ≠ [] ∧ ValidMatching j.rev (sitePairs j.pairs) :=
  Coma.Proofs.joinRows_subset P a b j h

/-- when each part is one factory-like segment and the parts do not interleave (every pair AND
    every unpaired position of the earlier part lies before the later part's first pair on both
    maps), the joined record is exactly the union.  Without `hU` (unpaired positions too) the
    statement is false: `Coma.Proofs.Modes.joinRows_union_false`. -/
theorem C08_join_union_partial (P : Params) (a b : Row) (sa sb : Seg) (pa pb : Pr)
    (ha : a.segments = [sa]) (hb : b.segments = [sb])
    (hpa : sa.pairs.head? = some pa) (hpb : sb.pairs.head? = some pb) (hlt : pa.r.pos < pb.r.pos)
    (hLa : LeftOK sa) (hRb : RightOK sb) (hS : StrictCoords sa sb) (hsep : Separated sa sb)
    (hU : ∀ x ∈ sa.items, x.isPair = false → x.lessOnBoth pb = true)
    (hv : (Row.create P [sa, sb] a.queryId a.referenceId a.queryLength a.referenceLength a.rev).isOneToOneAndCollinear = true) :
    ∃ j, joinRows P a b = .ok (some j) ∧ j.pairs = sa.pairs ++ sb.pairs :=
  Coma.Proofs.joinRows_union P a b sa sb pa pb ha hb hpa hpb hlt hLa hRb hS hsep hU hv

/-- only `segments[0]` of each part enters the join (F8): the union of the parts is the valid
    matching (1,1)…(4,4),(6,6),(7,7) but the joined record has lost (3,3),(4,4) -/
theorem C08_join_drops_segments_counterexample :
    ∃ j, joinRows ⟨1000, 1, -250, 1500, 1000, 1200⟩
      { (default : Row) with segments := [⟨0, [.pair ⟨⟨1, 10⟩, ⟨1, 10⟩, 0, 0⟩, .pair ⟨⟨2, 20⟩, ⟨2, 20⟩, 0, 0⟩]⟩,
                                           ⟨0, [.pair ⟨⟨3, 30⟩, ⟨3, 30⟩, 0, 0⟩, .pair ⟨⟨4, 40⟩, ⟨4, 40⟩, 0, 0⟩]⟩] }
      { (default : Row) with segments := [⟨0, [.pair ⟨⟨6, 60⟩, ⟨6, 60⟩, 0, 0⟩, .pair ⟨⟨7, 70⟩, ⟨7, 70⟩, 0, 0⟩]⟩] } = .ok (some j) ∧
      sitePairs j.pairs = [(1, 1), (2, 2), (6, 6), (7, 7)] :=
  Coma.Proofs.join_drops_segments_counterexample

/-- the join is a cut, not a union (KF-d): the parts (1,1),(2,2),(4,4) [label 3 unpaired on both maps]
    and (2,2),(3,3),(5,5) [label 4 unpaired] interleave; their union (1,1)…(5,5) is a valid matching
    but the joined record has lost (4,4).  Replayed on the real code by the `JOINROWS` operation. -/
theorem C08_join_cuts_interleaving_counterexample :
    (joinRows ⟨1000, 1, -250, 1500, 1000, 1200⟩
      { (default : Row) with segments := [⟨0, [.pair ⟨⟨1, 10⟩, ⟨1, 10⟩, 0, 0⟩, .pair ⟨⟨2, 20⟩, ⟨2, 20⟩, 0, 0⟩, .uref ⟨3, 30⟩, .uqry ⟨3, 30⟩ 0, .pair ⟨⟨4, 40⟩, ⟨4, 40⟩, 0, 0⟩]⟩] }
      { (default : Row) with segments := [⟨0, [.pair ⟨⟨2, 20⟩, ⟨2, 20⟩, 0, 0⟩, .pair ⟨⟨3, 30⟩, ⟨3, 30⟩, 0, 0⟩, .uref ⟨4, 40⟩, .uqry ⟨4, 40⟩ 0, .pair ⟨⟨5, 50⟩, ⟨5, 50⟩, 0, 0⟩]⟩] }).toOption.map
        (Option.map fun j => sitePairs j.pairs) = some (some [(1, 1), (2, 2), (3, 3), (5, 5)]) := by
  decide +kernel

/-- what the unrepaired join did (F7): two parts placing the same query labels at two reference
    loci were joined into a record that lists query label 3 twice -/
theorem C08_unchecked_join_counterexample :
    ∃ j, joinRowsUnchecked ⟨1000, 1, -250, 1500, 1000, 1200⟩
      { (default : Row) with segments := [⟨0, [.pair ⟨⟨1, 10⟩, ⟨2, 20⟩, 0, 0⟩, .pair ⟨⟨2, 20⟩, ⟨3, 30⟩, 0, 0⟩, .pair ⟨⟨3, 30⟩, ⟨4, 40⟩, 900, 0⟩]⟩] }
      { (default : Row) with segments := [⟨50, [.pair ⟨⟨6, 60⟩, ⟨1, 10⟩, 900, 0⟩, .pair ⟨⟨7, 70⟩, ⟨2, 20⟩, 900, 0⟩, .pair ⟨⟨8, 80⟩, ⟨3, 30⟩, 0, 0⟩]⟩] } = .ok j ∧
      sitePairs j.pairs = [(1, 2), (2, 3), (8, 3)] ∧
      j.isOneToOneAndCollinear = false :=
  Coma.Proofs.unchecked_join_counterexample

end Coma.Props
