/-
  Props/C15.lean — PROPERTY THEOREMS for C15 (conflict resolution only trims inside the overlap
  and leaves no shared label).  Statements only; proofs in Proofs/Conflict.lean (one step) and
  Proofs/ConflictAll.lean (the consecutive pass).

  `resolvePairB` models `checkForConflicts(...).resolveConflict()` for one (left, right) pair
  (src/alignment/segments.py:51-69, 135-141, 186-246), `resolveFromB` the consecutive in-place
  pass (src/alignment/segment_with_resolved_conflicts.py:19-24); the `Branch` value names the
  path taken (emptyLeft / noOverlap / index0 / indexN / interior / dropRight / dropLeft).

  FULL STATEMENT of the property (kept visible): "afterwards no two segments share a reference
  or query label or cross each other".  It is FALSE of the unchanged code — see the two
  `…_counterexample` theorems (F5: neighbours of an emptied chain member are never compared;
  F6: the interior index merge assumes the i-th label of both conflict regions is the same
  label).  What is proved instead is `C15_step_separated_partial` / `C15_adjacent_separated_partial`:
  separation in every branch except the interior index merge, and for adjacent final segments.
-/
import Props.Defs
import Proofs.Conflict
import Proofs.ConflictAll
import Proofs.SeparatedTrans
import Proofs.Translate
namespace Coma.Props
open Coma Coma.Spec

/-- never adds, moves or re-scores positions: each result is a sub-list (order kept) of its own
    input segment, same peak; the score is by definition the sum of what is left -/
theorem C15_sublist (P : Params) (L R l r : Seg) (b : Branch) (h : resolvePairB P L R = .ok (l, r, b)) :
    l.items.Sublist L.items ∧ r.items.Sublist R.items ∧ l.peak = L.peak ∧ r.peak = R.peak :=
  Coma.Proofs.resolve_sublist P L R l r b h

theorem C15_score (P : Params) (s : Seg) : s.score P = sumScores P s.items := rfl

/-- contiguity: the left result is a prefix of the left input, the right result a suffix of the
    right input (only the overlap region at the junction is trimmed) -/
theorem C15_subrun (P : Params) (L R l r : Seg) (b : Branch) (h : resolvePairB P L R = .ok (l, r, b))
    (hL : LeftOK L) (hR : RightOK R) :
    l.items <+: L.items ∧ r.items <:+ R.items :=
  Coma.Proofs.resolve_subrun P L R l r b h hL hR

/-- positions of the earlier segment before the later one's first pair on both maps are kept,
    and positions of the later segment from its first pair that lies after the earlier one's
    last pair on both maps onwards are kept -/
theorem C15_keeps_outside (P : Params) (L R l r : Seg) (b : Branch) (h : resolvePairB P L R = .ok (l, r, b))
    (hL : LeftOK L) (hR : RightOK R) (cs ce : Pr)
    (hcs : R.pairs.head? = some cs) (hce : L.pairs.getLast? = some ce) :
    (L.items.takeWhile (fun p => p.lessOnBoth cs)) <+: l.items ∧
    (R.items.dropWhile (fun p => !p.isPair || p.leqAny ce)) <:+ r.items :=
  Coma.Proofs.resolve_keeps_outside P L R l r b h hL hR cs ce hcs hce

/-- one step leaves the two segments separated in every branch except the interior index merge -/
theorem C15_step_separated_partial (P : Params) (L R l r : Seg) (b : Branch)
    (h : resolvePairB P L R = .ok (l, r, b)) (hL : LeftOK L) (hR : RightOK R) (hS : StrictCoords L R)
    (hb : b ≠ Branch.interior) : Separated l r :=
  Coma.Proofs.resolve_separated P L R l r b h hL hR hS hb

/-- the interior index merge can leave a query label in both segments (F6): two reverse-strand
    segments of peaks 9 and 0; the cut at merge index 1 of 2 keeps (3,2) on the left and (5,2)
    on the right -/
theorem C15_interior_counterexample :
    ∃ l r, resolvePairB ⟨10, 2, -1, 1, 15, 5⟩
        ⟨0, [.pair ⟨⟨3, 7⟩, ⟨2, 7⟩, 0, 0⟩, .pair ⟨⟨4, 8⟩, ⟨1, 8⟩, 0, 0⟩]⟩
        ⟨9, [.pair ⟨⟨4, 8⟩, ⟨3, 0⟩, 1, 0⟩, .pair ⟨⟨5, 16⟩, ⟨2, 7⟩, 0, 0⟩]⟩ = .ok (l, r, Branch.interior) ∧
      sharesLabel l r = true :=
  Coma.Proofs.interior_counterexample

/-- the whole pass: every result is a contiguous sub-run of the corresponding chain member -/
theorem C15_subrun_all (P : Params) (c : Seg) (cs out : List Seg) (h : resolveFrom P c cs = .ok out)
    (hF : ∀ s ∈ c :: cs, FactoryLike s) :
    Forall2 (fun o i => o.items <:+: i.items ∧ o.peak = i.peak) out (c :: cs) :=
  Coma.Proofs.resolveFrom_subrun P c cs out h hF

/-- the whole pass never raises on factory-like segments (used by C07) -/
theorem C15_pass_total (P : Params) (c : Seg) (cs : List Seg) (hF : ∀ s ∈ c :: cs, FactoryLike s) :
    ∃ out, resolveFrom P c cs = .ok out :=
  Coma.Proofs.resolveFrom_total P c cs hF

/-- adjacent final segments are separated when no step took the interior branch -/
theorem C15_adjacent_separated_partial (P : Params) (c : Seg) (cs out : List Seg) (bs : List Branch)
    (h : resolveFromB P c cs = .ok (out, bs)) (hF : ∀ s ∈ c :: cs, FactoryLike s)
    (hS : ∀ a ∈ c :: cs, ∀ b ∈ c :: cs, StrictCoords a b) (hb : ∀ b ∈ bs, b ≠ Branch.interior) :
    Consec Separated out :=
  Coma.Proofs.resolveFrom_adjacent_separated P c cs out bs h hF hS hb

/-- … and then ALL final segments are pairwise separated (no shared label, no crossing between ANY two of them),
    provided every member still keeps a pair: separation is transitive through a member that keeps a pair. The two
    hypotheses are exactly what the known findings violate — KF-b (an interior index merge) and KF-a (a member between
    two others that is emptied or left pair-less) -/
theorem C15_global_separated_partial (P : Params) (c : Seg) (cs out : List Seg) (bs : List Branch)
    (h : resolveFromB P c cs = .ok (out, bs)) (hF : ∀ s ∈ c :: cs, FactoryLike s)
    (hS : ∀ a ∈ c :: cs, ∀ b ∈ c :: cs, StrictCoords a b) (hb : ∀ b ∈ bs, b ≠ Branch.interior)
    (hkeep : ∀ s ∈ out, s.pairs ≠ []) :
    out.Pairwise Separated :=
  Coma.Proofs.consec_pairwise out (Coma.Proofs.resolveFrom_adjacent_separated P c cs out bs h hF hS hb) hkeep

/-- neighbours of an emptied chain member are never compared (F5): three chain members, the
    middle one is emptied, its neighbours keep query label 3 -/
theorem C15_emptied_middle_counterexample :
    ∃ out bs, resolveFromB ⟨10, 1, -3, 2, 10, 12⟩
        ⟨2, [.pair ⟨⟨1, 0⟩, ⟨3, 0⟩, 2, 0⟩, .uqry ⟨2, 1⟩ 2, .pair ⟨⟨2, 9⟩, ⟨1, 5⟩, -2, 0⟩]⟩
        [⟨4, [.pair ⟨⟨2, 9⟩, ⟨1, 5⟩, 0, 0⟩]⟩,
         ⟨11, [.pair ⟨⟨2, 9⟩, ⟨3, 0⟩, 2, 0⟩, .uqry ⟨2, 1⟩ 11, .pair ⟨⟨3, 17⟩, ⟨1, 5⟩, -1, 0⟩]⟩] = .ok (out, bs) ∧
      (∀ b ∈ bs, b ≠ Branch.interior) ∧
      (match out with | [a, _, c] => sharesLabel a c | _ => false) = true :=
  Coma.Proofs.emptied_middle_counterexample

/-! ### the resolver does not depend on the magnitude of the reference coordinates -/

/-- pairing, scoring and cutting into segments commute with a translation of the reference -/
theorem C15_segments_translation (P : Params) (ref qry : OMap) (rev : Bool) (it : Int) (peaks : List Int) (d : Int) :
    segmentsOfPeaks P (Coma.Proofs.shiftRef d ref) qry rev it (peaks.map (· + d))
      = (segmentsOfPeaks P ref qry rev it peaks).map (List.map (Coma.Proofs.shiftSeg d)) :=
  Coma.Proofs.segmentsOfPeaks_shift P ref qry rev it peaks d

/-- chaining and conflict resolution of the segments of a candidate commute with a translation of the reference by any
    `d`: the same segments are chained, the same positions are dropped (a comparison with a tolerance relative to the
    coordinate breaks this) -/
theorem C15_resolution_translation (P : Params) (C : ChainCfg) (ref qry : OMap) (rev : Bool) (it : Int) (peaks : List Int)
    (segs : List Seg) (h : segmentsOfPeaks P ref qry rev it peaks = .ok segs) (d : Int) :
    resolveConflicts P C (segs.map (Coma.Proofs.shiftSeg d)) = (resolveConflicts P C segs).map (List.map (Coma.Proofs.shiftSeg d)) :=
  Coma.Proofs.resolveConflicts_shift_factory P C segs d (Coma.Proofs.segmentsOfPeaks_factory P ref qry rev it peaks segs h)

/-- for ARBITRARY segment lists the claim is false: in front of an empty segment the resolver compares reference labels
    with the null pair (label 0 at coordinate 0), i.e. reads the sign of a coordinate; a non-positive-score segment at
    coordinate 5 is kept, the same segment at coordinate −5 is emptied.  (Segments cut by the factory have positive
    suffix scores and are returned unchanged in front of an empty segment, whatever that comparison says.) -/
theorem C15_translation_null_pair_counterexample :
    ¬ ∀ (P : Params) (C : ChainCfg) (segs : List Seg) (d : Int),
      resolveConflicts P C (segs.map (Coma.Proofs.shiftSeg d)) = (resolveConflicts P C segs).map (List.map (Coma.Proofs.shiftSeg d)) :=
  Coma.Proofs.resolveConflicts_shift_false

end Coma.Props
