/-
  Props/C19.lean — PROPERTY THEOREMS for C19 (alignment comparison partitions keys; measures are
  bounded and reflexive).  Statements only; proofs in Proofs/Compare.lean.

  `compareSets` models `AlignmentComparer.compare` + `AlignmentComparison.create`
  (src/diagnostic/alignment_comparer.py:44-58, 164-233).  `difflib.SequenceMatcher` enters as a
  parameter `M a b` (total size of the matching blocks; `ratio = 2·M/T`) with the three-clause
  contract `MatcherOK`, which the harness exercises against the real difflib on every run.
  Quantifier: all pairs of alignment lists (duplicate keys, empty pair lists, duplicated query
  labels), both settings of the combine flag, every matcher satisfying the contract.
-/
import Props.Defs
import Proofs.Compare
namespace Coma.Props
open Coma Coma.Spec

/-- distinct keys of an alignment list, in dictionary order -/
def keysOf (as : List BAl) : List Key := (toDict as).map (·.1)

theorem C19_keys (as : List BAl) :
    (keysOf as).Nodup ∧ ∀ k, k ∈ keysOf as ↔ ∃ a ∈ as, a.key = k :=
  Coma.Proofs.keysOf_spec as

/-- every key occurring in either set is classified exactly once; the only-counts are the set
    differences -/
theorem C19_partition (flag : Bool) (M : List BPair → List BPair → Nat) (as1 as2 : List BAl) :
    let c := compareSets flag M as1 as2
    c.overlapping + c.nonOverlapping = ((keysOf as1).filter (fun k => (keysOf as2).contains k)).length ∧
    c.firstOnly = ((keysOf as1).filter (fun k => !(keysOf as2).contains k)).length ∧
    c.secondOnly = ((keysOf as2).filter (fun k => !(keysOf as1).contains k)).length ∧
    c.overlapping + c.nonOverlapping + c.firstOnly + c.secondOnly =
      (keysOf as1).length + ((keysOf as2).filter (fun k => !(keysOf as1).contains k)).length :=
  Coma.Proofs.compare_partition flag M as1 as2

/-- identity and both coverages lie in [0,1] for every compared row -/
theorem C19_bounds (flag : Bool) (M : List BPair → List BPair → Nat) (hM : MatcherOK M) (as1 as2 : List BAl) :
    ∀ r ∈ (compareSets flag M as1 as2).rows,
      0 ≤ r.ident ∧ r.ident ≤ 1 ∧ 0 ≤ r.cov1 ∧ r.cov1 ≤ 1 ∧ 0 ≤ r.cov2 ∧ r.cov2 ≤ 1 :=
  Coma.Proofs.compare_bounds flag M hM as1 as2

/-- comparing a set with itself: every key is in both, identity 1, coverage 1, no exclusive pairs -/
theorem C19_reflexive (flag : Bool) (M : List BPair → List BPair → Nat) (hM : MatcherOK M) (as : List BAl) :
    let c := compareSets flag M as as
    c.firstOnly = 0 ∧ c.secondOnly = 0 ∧ c.nonOverlapping = 0 ∧ c.overlapping = (keysOf as).length ∧
    ∀ r ∈ c.rows, r.type = .both ∧ r.ident = 1 ∧ r.cov1 = 1 ∧ r.cov2 = 1 ∧ r.diff1 = [] ∧ r.diff2 = [] :=
  Coma.Proofs.compare_reflexive flag M hM as

/-- swapping the inputs swaps the first/second counts and keeps the both-counts -/
theorem C19_swap_counts (flag : Bool) (M : List BPair → List BPair → Nat) (hM : MatcherOK M) (as1 as2 : List BAl) :
    (compareSets flag M as1 as2).firstOnly = (compareSets flag M as2 as1).secondOnly ∧
    (compareSets flag M as1 as2).secondOnly = (compareSets flag M as2 as1).firstOnly ∧
    (compareSets flag M as1 as2).overlapping = (compareSets flag M as2 as1).overlapping ∧
    (compareSets flag M as1 as2).nonOverlapping = (compareSets flag M as2 as1).nonOverlapping :=
  Coma.Proofs.compare_swap_counts flag M hM as1 as2

/-- swapping the inputs swaps the two coverages and exclusive-pair lists of every compared row -/
theorem C19_swap_row (flag : Bool) (M : List BPair → List BPair → Nat) (a1 a2 : BAl) :
    (compareRow flag M a1 a2).cov1 = (compareRow flag M a2 a1).cov2 ∧
    (compareRow flag M a1 a2).cov2 = (compareRow flag M a2 a1).cov1 ∧
    (compareRow flag M a1 a2).diff1 = (compareRow flag M a2 a1).diff2 ∧
    (compareRow flag M a1 a2).diff2 = (compareRow flag M a2 a1).diff1 :=
  Coma.Proofs.compareRow_swap flag M a1 a2

/-- non-vacuity: the identity matcher-size of a longest-common-prefix matcher satisfies nothing
    special; a concrete comparison -/
example : (compareSets false (fun a b => if a = b then a.length else 0)
    [⟨1, 1, [(1, 1), (2, 2)]⟩, ⟨2, 1, [(5, 5)]⟩] [⟨1, 1, [(1, 1), (2, 2)]⟩, ⟨3, 1, []⟩]).overlapping = 1 := by
  decide +kernel

end Coma.Props
