/-
  Props/C20.lean — PROPERTY THEOREMS for C20 (indel calls are self-consistent and clustering
  conserves every call).  Statements only; proofs in Proofs/Indel.lean.

  `clusterIndels` models `cluster_indels` (sv/write_indel_files.py:3-44, after the `fix:`
  commit); `mkCall` models the call constructor shared by
  sv/molecule_indels.py:131-156 (lo = 2000) and sv/segment_indels.py:173-205 (lo = 100).
  Quantifier: every list of calls (any order, any chromosomes/coordinates), every blur.
-/
import Props.Defs
import Proofs.Indel
import Proofs.IndelLoops
namespace Coma.Props
open Coma Coma.Spec

/-- the clusters are summaries of a partition of the input into consecutive groups:
    nothing is lost, invented, mixed or shrunk.  Input calls carry Count 1 (the finders never
    set another value; `cluster_indels` appends `[1]` itself).  Without that hypothesis the
    statement is false — `Call.merge` adds 1, not the merged call's count — see
    `C20_partition_needs_unit_counts`. -/
theorem C20_partition (blur : Int) (calls : List Call) (h1 : ∀ c ∈ calls, c.count = 1) :
    ∃ gs : List (List Call), gs.flatten = calls ∧
      Forall2 Summarises (clusterIndels blur calls) gs :=
  Coma.Proofs.cluster_partition blur calls h1

theorem C20_partition_needs_unit_counts :
    ¬ ∃ gs, gs.flatten = Coma.Proofs.Indel.cex ∧
      Forall2 Summarises (clusterIndels 30000 Coma.Proofs.Indel.cex) gs :=
  Coma.Proofs.Indel.cluster_partition_false

/-- Count values sum to the number of input calls -/
theorem C20_count (blur : Int) (calls : List Call) (h1 : ∀ c ∈ calls, c.count = 1) :
    ((clusterIndels blur calls).map (·.count)).sum = calls.length :=
  Coma.Proofs.cluster_count blur calls h1

/-- every input query id appears in exactly one cluster, in order -/
theorem C20_ids (blur : Int) (calls : List Call) :
    (clusterIndels blur calls).flatMap (·.qids) = calls.flatMap (·.qids) :=
  Coma.Proofs.cluster_ids blur calls

/-- the unrepaired loop lost a call at a chromosome change within the blur distance (F4) -/
theorem C20_unrepaired_counterexample :
    ((clusterIndelsBuggy 30000
        [⟨false, 1, 100, 200, [7], 1, 2, 5000, 1⟩, ⟨false, 2, 150, 250, [8], 1, 2, 5000, 1⟩]).map (·.count)).sum = 1 := by
  decide +kernel

/-- a call is self-consistent: Length = reference gap − query gap, type insertion iff negative,
    and it is reported exactly when lo < |Length| < 100000 -/
theorem C20_call (lo chrom qid rs re qs qe : Int) (hlo : 0 ≤ lo) :
    (∀ c, mkCall lo chrom qid rs re qs qe = some c →
        c.length = ((iabs' (rs - re) - iabs' (qs - qe) : Int) : Rat) ∧
        (c.isIns = true ↔ iabs' (rs - re) - iabs' (qs - qe) < 0) ∧
        c.chrom = chrom ∧ c.qids = [qid] ∧ c.rStart = rs ∧ c.rStop = re ∧ c.count = 1) ∧
    (mkCall lo chrom qid rs re qs qe = none ↔
        ¬ (lo < iabs' (iabs' (rs - re) - iabs' (qs - qe)) ∧ iabs' (iabs' (rs - re) - iabs' (qs - qe)) < 100000)) :=
  Coma.Proofs.mkCall_spec lo chrom qid rs re qs qe hlo

/-- non-vacuity -/
example : ((clusterIndels 30000
    [⟨false, 1, 100, 200, [7], 1, 2, 5000, 1⟩, ⟨false, 2, 150, 250, [8], 1, 2, 5000, 1⟩,
     ⟨false, 2, 160, 300, [9], 1, 2, 3000, 1⟩]).map (·.count)) = [1, 2] := by decide +kernel

/-- the WRITTEN FILE (`write_indel_file`: both types sorted, clustered and merged): the Count column
    sums to the number of calls found -/
theorem C20_file_count (blur : Int) (ins dels : List Call)
    (hi : ∀ c ∈ ins, c.count = 1) (hd : ∀ c ∈ dels, c.count = 1) :
    ((indelFile blur ins dels).map (·.count)).sum = ins.length + dels.length :=
  Coma.Proofs.indelFile_count blur ins dels hi hd

/-- every query id of every call found (insertions and deletions) appears in exactly one line of the file -/
theorem C20_file_ids (blur : Int) (ins dels : List Call) :
    ((indelFile blur ins dels).flatMap (·.qids)).Perm ((ins ++ dels).flatMap (·.qids)) :=
  Coma.Proofs.indelFile_ids blur ins dels

/-- a line of the file is a cluster of one type -/
theorem C20_file_types (blur : Int) (ins dels : List Call) :
    ∀ c ∈ indelFile blur ins dels,
      c ∈ clusterIndels blur (sortCalls dels) ∨ c ∈ clusterIndels blur (sortCalls ins) :=
  Coma.Proofs.indelFile_types blur ins dels

/-- non-vacuity: insertions only -/
example : ((indelFile 30000 [⟨true, 1, 100, 200, [7], 1, 2, -5000, 1⟩, ⟨true, 1, 150, 250, [8], 1, 2, -5000, 1⟩] []).map (·.count)) = [2] := by
  decide +kernel

/-! ### the finders' loops (label look-ups, guards, several breakage places) -/

/-- every call the segment finder reports for an alignment is the constructor applied to the coordinates of four
    labels of the two maps (hence self-consistent by `C20_call`), at most one per breakage place -/
theorem C20_segment_finder (chrom qid : Int) (rpos qpos : List Int) (pairs : List (Int × Int)) (bps : List Int) (cs : List Call)
    (h : segmentCalls chrom qid rpos qpos pairs bps = .ok cs) :
    cs.length ≤ bps.length ∧
    ∀ c ∈ cs, ∃ rs re qs qe, rs ∈ rpos ∧ re ∈ rpos ∧ qs ∈ qpos ∧ qe ∈ qpos ∧ mkCall 100 chrom qid rs re qs qe = some c :=
  ⟨Coma.Proofs.segmentCalls_length chrom qid rpos qpos pairs bps cs h, Coma.Proofs.segmentCalls_sound chrom qid rpos qpos pairs bps cs h⟩

/-- a breakage place at or past the last pair is skipped, not an error (`len(alignedPairs) > index + 1`) -/
theorem C20_segment_finder_guard (chrom qid : Int) (rpos qpos : List Int) (pairs : List (Int × Int)) (i : Int) (bps : List Int)
    (hi : ¬ (pairs.length : Int) > i + 1) :
    segmentCalls chrom qid rpos qpos pairs (i :: bps) = segmentCalls chrom qid rpos qpos pairs bps :=
  Coma.Proofs.segmentCalls_skip chrom qid rpos qpos pairs i bps hi

/-- likewise the molecule finder (threshold 2000) -/
theorem C20_molecule_finder (chrom qid : Int) (rpos qpos : List Int) (pairs : List (Int × Int)) (index : Int) (bp : Int × Int) (c : Call)
    (h : moleculeCall chrom qid rpos qpos pairs index bp = .ok (some c)) :
    ∃ rs re qs qe, rs ∈ rpos ∧ re ∈ rpos ∧ qs ∈ qpos ∧ qe ∈ qpos ∧ mkCall 2000 chrom qid rs re qs qe = some c :=
  Coma.Proofs.moleculeCall_sound chrom qid rpos qpos pairs index bp c h

/-- non-vacuity: two breakage places, one deletion of 5000 bp found, the place at the last pair skipped -/
example : ((segmentCalls 3 7 [0, 10000, 25000, 30000] [0, 10000, 20000, 25000] [(1, 1), (2, 2), (3, 3), (4, 4)] [1, 3]).toOption.map
    fun cs => cs.map fun c => (c.isIns, c.rStart, c.rStop, c.length)) = some [(false, 10000, 25000, 5000)] := by decide +kernel

end Coma.Props
