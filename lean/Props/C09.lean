/-
  Props/C09.lean — PROPERTY THEOREMS for C09 (output does not depend on the number of worker
  processes or on the run).  Statements only; proofs in Proofs/SrcBlind*.lean, Proofs/Pairing.lean.

  Models: the per-process mutable counter `AlignerEngine.iteration` (src/alignment/aligner.py:31-34,
  64) is the explicit argument `it`; `p_tqdm.p_imap` (src/workflow_coordinator.py:29-35) is an
  order-preserving map (`List.mapM`) — that it IS order preserving, and that FFT seeding is
  bit-reproducible across processes, is runtime behaviour exercised by the harness (PARTIAL).
  Quantifier: all inputs, all seed tables, all modes, all values of the counter, all ways of
  splitting the query list among workers.
-/
import Props.Defs
import Proofs.SrcBlind
namespace Coma.Props
open Coma Coma.Spec

/-- every line of every output file of every mode is independent of the worker-local counter -/
theorem C09_iteration_unobservable (cfg : Cfg) (mode : Mode) (refRows qryRows : List CRow)
    (refIds qryIds : List Int) (t : SeedTable) (it it' : Int) :
    runProgram cfg mode refRows qryRows refIds qryIds t it =
    runProgram cfg mode refRows qryRows refIds qryIds t it' :=
  Coma.Proofs.runProgram_iteration_irrelevant cfg mode refRows qryRows refIds qryIds t it it'

/-- a candidate built under another counter value differs only in the `source` fields, and
    nothing that is written reads `source` -/
theorem C09_candidate_source_only (P : Params) (C : ChainCfg) (ref qry : OMap) (peaks : List Int) (rev : Bool) (it it' : Int) :
    (alignerAlign P C ref qry peaks rev it).map eraseSrcRow =
    (alignerAlign P C ref qry peaks rev it').map eraseSrcRow :=
  Coma.Proofs.alignerAlign_src_blind P C ref qry peaks rev it it'

theorem C09_render_source_blind (cfg : Cfg) (rows : List Row) :
    renderRows cfg (rows.map eraseSrcRow) = renderRows cfg rows :=
  Coma.Proofs.renderRows_src_blind cfg rows

/-- schedule independence of an order-preserving map: splitting the query list into chunks (one
    per worker, processed in any order, finishing in any order) and concatenating the chunk
    results in list order gives the sequential result -/
theorem C09_schedule_independent (cfg : Cfg) (refs : List OMap) (t : SeedTable) (qs1 qs2 : List OMap) (it : Int) :
    executeSingle cfg refs t (qs1 ++ qs2) it =
      (do let a ← executeSingle cfg refs t qs1 it
          let b ← executeSingle cfg refs t qs2 it
          pure (a ++ b)) :=
  Coma.Proofs.executeSingle_append cfg refs t qs1 qs2 it

/-- the run is a function of (maps, parameters, seed table): two runs with equal arguments give
    equal files (trivially, `runProgram` is a function — stated for the record) -/
theorem C09_deterministic (cfg : Cfg) (mode : Mode) (refRows qryRows : List CRow) (refIds qryIds : List Int)
    (t : SeedTable) (it : Int) (a b : Except Err (List (Nat × List String)))
    (ha : a = runProgram cfg mode refRows qryRows refIds qryIds t it)
    (hb : b = runProgram cfg mode refRows qryRows refIds qryIds t it) : a = b := by rw [ha, hb]

end Coma.Props
