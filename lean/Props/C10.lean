/-
  Props/C10.lean — PROPERTY THEOREMS for C10 (a query's record is independent of the other
  molecules and of file order).  Statements only; proofs in Proofs/Indep.lean, Proofs/SrcBlind.lean.

  Models: `executeSingle` (each query aligned independently, src/workflow_coordinator.py:37-48),
  `filterBestPerQuery`, `readCmap` (id filters applied while reading, src/parsers/cmap_reader.py:23-30,
  src/program.py:53-59), `runProgram`.  Quantifier: all inputs, all subsets / permutations of the
  query molecules, all row permutations of the CMAP files, all id selections.
-/
import Props.Defs
import Proofs.Indep
import Proofs.SrcBlind
import Proofs.Restrict
import Proofs.SeedTable
import Proofs.SeedingGlue
import Proofs.RefOrder
namespace Coma.Props
open Coma Coma.Spec

/-- the first pass over a list of queries is the concatenation of the first passes over its
    parts: a query's row cannot depend on the other molecules (adding / removing queries) -/
theorem C10_per_query (cfg : Cfg) (refs : List OMap) (t : SeedTable) (qs1 qs2 : List OMap) (it : Int) :
    executeSingle cfg refs t (qs1 ++ qs2) it =
      (do let a ← executeSingle cfg refs t qs1 it
          let b ← executeSingle cfg refs t qs2 it
          pure (a ++ b)) :=
  Coma.Proofs.executeSingle_append cfg refs t qs1 qs2 it

/-- every first-pass row belongs to one of the given queries, in query order -/
theorem C10_rows_of_queries (cfg : Cfg) (refs : List OMap) (t : SeedTable) (qs : List OMap) (it : Int) (rows : List Row)
    (h : executeSingle cfg refs t qs it = .ok rows) :
    (rows.map (·.queryId)).Sublist (qs.map (·.id)) :=
  Coma.Proofs.executeSingle_ids cfg refs t qs it rows h

/-- reordering the queries only reorders the first-pass rows … -/
theorem C10_query_perm_rows (cfg : Cfg) (refs : List OMap) (t : SeedTable) (qs qs' : List OMap) (it : Int)
    (rows rows' : List Row) (hp : qs.Perm qs')
    (h : executeSingle cfg refs t qs it = .ok rows) (h' : executeSingle cfg refs t qs' it = .ok rows') :
    rows.Perm rows' :=
  Coma.Proofs.executeSingle_perm cfg refs t qs qs' it rows rows' hp h h'

/-- … and the written file does not change (single-pass mode; the per-query filter sorts by id) -/
theorem C10_query_perm (cfg : Cfg) (refs : List OMap) (t : SeedTable) (qs qs' : List OMap) (it : Int)
    (o o' : Output) (hp : qs.Perm qs') (hn : (qs.map (·.id)).Nodup)
    (h : execute cfg .single refs t qs it = .ok o) (h' : execute cfg .single refs t qs' it = .ok o') :
    o.main = o'.main :=
  Coma.Proofs.execute_single_perm cfg refs t qs qs' it o o' hp hn h h'

theorem C10_filter_perm (rows rows' : List Row) (hp : rows.Perm rows') (hn : (rows.map (·.queryId)).Nodup) :
    filterBestPerQuery rows = filterBestPerQuery rows' :=
  Coma.Proofs.filterBestPerQuery_perm rows rows' hp hn

/-- restricting a run with -qId / -rId gives exactly the run on files physically restricted to
    those molecules (every file of every mode) -/
theorem C10_id_filter (cfg : Cfg) (mode : Mode) (refRows qryRows : List CRow) (refIds qryIds : List Int)
    (t : SeedTable) (it : Int) :
    runProgram cfg mode refRows qryRows refIds qryIds t it =
      runProgram cfg mode
        (if refIds.isEmpty then refRows else refRows.filter (fun r => refIds.contains r.id))
        (if qryIds.isEmpty then qryRows else qryRows.filter (fun r => qryIds.contains r.id)) [] [] t it :=
  Coma.Proofs.runProgram_id_filter cfg mode refRows qryRows refIds qryIds t it

/-- the order of rows — hence of molecules, references included — inside both CMAP files is
    irrelevant to every file of every mode -/
theorem C10_row_perm (cfg : Cfg) (mode : Mode) (refRows refRows' qryRows qryRows' : List CRow)
    (refIds qryIds : List Int) (t : SeedTable) (it : Int)
    (hr : refRows.Perm refRows') (hq : qryRows.Perm qryRows')
    (h1 : ∀ id, (refRows.filter (fun r => r.id = id ∧ r.chan = 0)).length ≤ 1)
    (h2 : ∀ id, (qryRows.filter (fun r => r.id = id ∧ r.chan = 0)).length ≤ 1) :
    runProgram cfg mode refRows qryRows refIds qryIds t it =
    runProgram cfg mode refRows' qryRows' refIds qryIds t it :=
  Coma.Proofs.runProgram_row_perm cfg mode refRows refRows' qryRows qryRows' refIds qryIds t it hr hq h1 h2

/-- MULTI-PASS per-query independence: every file of every output mode, restricted to the records of
    one query, is what a run on that query alone writes (query ids pairwise distinct).  So adding or
    removing other molecules cannot change a query's records in any file. -/
theorem C10_execute_restrict (cfg : Cfg) (mode : Mode) (refs : List OMap) (t : SeedTable) (qs : List OMap) (it : Int)
    (q : OMap) (hq : q ∈ qs) (hn : (qs.map (·.id)).Nodup) (o : Output)
    (h : execute cfg mode refs t qs it = .ok o) :
    execute cfg mode refs t [q] it = .ok (restrictOutput o q.id) :=
  Coma.Proofs.execute_restrict_eq cfg mode refs t qs it q hq hn o h

/-- a molecule that has no seed at all (no correlation peak: longer than every reference, too few
    labels) can stand anywhere in the query list: removing it changes no file of any mode (what a
    positional pairing of rows with molecules would break) -/
theorem C10_drop_unalignable (cfg : Cfg) (mode : Mode) (refs : List OMap) (t : SeedTable) (qs1 qs2 : List OMap) (q : OMap) (it : Int)
    (hseed : t.lookup q.key = []) (hn : ((qs1 ++ q :: qs2).map (·.id)).Nodup) :
    execute cfg mode refs t (qs1 ++ q :: qs2) it = execute cfg mode refs t (qs1 ++ qs2) it :=
  Coma.Proofs.execute_drop_unalignable cfg mode refs t qs1 qs2 q it hseed hn

/-- the order of the molecules in the query list is irrelevant to every file of EVERY mode -/
theorem C10_query_perm_all_modes (cfg : Cfg) (mode : Mode) (refs : List OMap) (t : SeedTable) (qs qs' : List OMap) (it : Int)
    (hp : qs.Perm qs') (hn : (qs.map (·.id)).Nodup) (o o' : Output)
    (h : execute cfg mode refs t qs it = .ok o) (h' : execute cfg mode refs t qs' it = .ok o') :
    o = o' :=
  Coma.Proofs.execute_perm cfg mode refs t qs qs' it hp hn o o' h h'

/-! ### with the secondary seeding stage inside the model (`Coma/Seeding.lean`) -/

/-- the seeds of a molecule are derived from its own entry of the primary-peak table, its own labels and
    the references only: the derived table is computed entry by entry … -/
theorem C10_seed_table_entrywise (c : SecCfg) (refs qs : List OMap) (pt : PTable) :
    deriveTable c refs qs pt =
      (pt.mapM (Coma.Proofs.deriveEntry c refs qs)).map fun es => { table := es.map (·.1), status := es.map (·.2) } :=
  Coma.Proofs.deriveTable_eq_mapM c refs qs pt

/-- … an entry does not change when other molecules are added, removed or reordered … -/
theorem C10_seed_entry_other_molecules (c : SecCfg) (refs qs qs' : List OMap) (e : QKey × List PSeed)
    (h : qs.find? (fun q => q.id = e.1.id) = qs'.find? (fun q => q.id = e.1.id)) :
    Coma.Proofs.deriveEntry c refs qs e = Coma.Proofs.deriveEntry c refs qs' e :=
  Coma.Proofs.deriveEntry_congr c refs qs qs' e h

/-- … and what the per-query worker looks up under a key is that entry and nothing else -/
theorem C10_seed_lookup (c : SecCfg) (refs qs : List OMap) (pt : PTable) (d : Derived) (k : QKey)
    (h : deriveTable c refs qs pt = .ok d) :
    d.table.lookup k =
      match pt.find? (fun e => e.1 = k) with
      | none   => []
      | some e => match Coma.Proofs.deriveEntry c refs qs e with
        | .ok r    => r.1.2
        | .error _ => [] :=
  Coma.Proofs.deriveTable_lookup c refs qs pt d k h

/-- the whole derived seed table is the same for every order of the query molecules (distinct ids) -/
theorem C10_seed_table_query_perm (c : SecCfg) (refs qs qs' : List OMap) (pt : PTable) (hp : qs.Perm qs') (hn : (qs.map (·.id)).Nodup) :
    deriveTable c refs qs' pt = deriveTable c refs qs pt :=
  Coma.Proofs.deriveTable_perm c refs qs qs' pt hp hn

/-! ### "references … listed in a different order" -/

/-- given the seed table, the whole run (every output mode) does not depend on the order in which the references are
    listed (distinct reference ids: C17) -/
theorem C10_reference_order (cfg : Cfg) (mode : Mode) (refs refs' : List OMap) (t : SeedTable) (qs : List OMap) (it : Int)
    (hp : refs.Perm refs') (hn : (refs.map (·.id)).Nodup) :
    execute cfg mode refs' t qs it = execute cfg mode refs t qs it :=
  Coma.Proofs.execute_ref_perm cfg mode refs refs' t qs it hp hn

/-- nor does the secondary seeding stage: the seed table derived from the selected primary peaks is the same -/
theorem C10_seed_table_reference_order (c : SecCfg) (refs refs' qs : List OMap) (pt : PTable)
    (hp : refs.Perm refs') (hn : (refs.map (·.id)).Nodup) :
    deriveTable c refs' qs pt = deriveTable c refs qs pt :=
  Coma.Proofs.deriveTable_ref_perm c refs refs' qs pt hp hn

/-- `PeaksSelector.selectPeaks` over the peaks of all references: with pairwise different scores the selected peaks and
    their order do not depend on the order in which the references deliver them (with tied scores the stable sort keeps
    arrival order — then, and only then, the listing order of the references can matter) -/
theorem C10_selection_reference_order {α} (count : Nat) (score : α → Int) (peaks peaks' : List α) (hp : peaks.Perm peaks')
    (hinj : ∀ a ∈ peaks, ∀ b ∈ peaks, score a = score b → a = b) :
    selectPeaks count score peaks' = selectPeaks count score peaks :=
  Coma.Proofs.selectPeaks_perm count score peaks peaks' hp hinj

/-- the tie case is real: two peaks with one score, `count = 1` — the first delivered wins -/
example : selectPeaks 1 (fun (p : Int × Int) => p.2) [(1, 5), (2, 5)] ≠ selectPeaks 1 (fun (p : Int × Int) => p.2) [(2, 5), (1, 5)] := by decide

end Coma.Props
