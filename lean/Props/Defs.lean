/-
  Props/Defs.lean — specification vocabulary used by the property theorems (no Mathlib).
-/
import Coma.Passes
import Coma.Vector
import Coma.Compare
import Coma.Indel
namespace Coma.Spec
open Coma

/-- sum of `scores[a..b)` -/
def sumRange (scores : List Int) (a b : Nat) : Int := sumInts ((scores.drop a).take (b - a))

/-- total of a chain: member scores plus join scores of consecutive members; `none` = −∞ -/
def chainTotal {α} (score : α → Rat) (join : α → α → Option Rat) : List α → Option Rat
  | []          => some 0
  | [a]         => some (score a)
  | a :: b :: t =>
    match join a b, chainTotal score join (b :: t) with
    | some j, some r => some (score a + j + r)
    | _, _           => none

/-- `R` holds between every two consecutive members -/
def Consec {α} (R : α → α → Prop) : List α → Prop
  | []          => True
  | [_]         => True
  | a :: b :: t => R a b ∧ Consec R (b :: t)

/-- `x ≤ y` where `none` is −∞ on the left -/
def leOpt (x : Option Rat) (y : Rat) : Prop :=
  match x with
  | none   => True
  | some v => v ≤ y

/-- reference / query label carried by an alignment position -/
def refLabel? : APos → Option Lbl
  | .pair p => some p.r
  | .uref r => some r
  | .uqry _ _ => none

def qryLabel? : APos → Option Lbl
  | .pair p => some p.q
  | .uqry q _ => some q
  | .uref _ => none

def pairsOf (xs : List APos) : List Pr := xs.filterMap APos.pair?

/-- offset of a (reference, query) label pair from the seed diagonal -/
def offset (start : Int) (r q : Lbl) : Int := q.pos - (r.pos - start)

/-- a list of integers is ascending (non-strict) -/
def Ascending (xs : List Int) : Prop := xs.Pairwise (· ≤ ·)
def StrictAscending (xs : List Int) : Prop := xs.Pairwise (· < ·)

/-- a matching given by site-id pairs is valid for a strand: reference strictly ascending,
    query strictly ascending ('+') / descending ('-') -/
def ValidMatching (rev : Bool) (ps : List (Int × Int)) : Prop :=
  ps.Pairwise (fun a b => a.1 < b.1 ∧ (if rev then b.2 < a.2 else a.2 < b.2))

def sitePairs (ps : List Pr) : List (Int × Int) := ps.map fun p => (p.r.site, p.q.site)

/-- pointwise relation between two lists of equal length -/
inductive Forall2 {α β} (R : α → β → Prop) : List α → List β → Prop
  | nil : Forall2 R [] []
  | cons {a b as bs} : R a b → Forall2 R as bs → Forall2 R (a :: as) (b :: bs)

/-- cluster `c` summarises the consecutive group `g` of input indel calls -/
def Summarises (c : Call) (g : List Call) : Prop :=
  g ≠ [] ∧
  c.count = (g.map (·.count)).sum ∧
  c.qids = g.flatMap (·.qids) ∧
  (∀ m ∈ g, m.isIns = c.isIns ∧ m.chrom = c.chrom) ∧
  (∀ m ∈ g, c.rStart ≤ m.rStart ∧ m.rStop ≤ c.rStop) ∧
  (∃ m ∈ g, m.rStart = c.rStart) ∧ (∃ m ∈ g, m.rStop = c.rStop)

/-- contract of `difflib.SequenceMatcher` as used by the comparer: `M a b` is the total size of
    the matching blocks -/
structure MatcherOK (M : List BPair → List BPair → Nat) : Prop where
  le_min   : ∀ a b, M a b ≤ min a.length b.length
  refl     : ∀ a, M a a = a.length
  symm_pos : ∀ a b, 0 < M a b ↔ 0 < M b a

/-! ### vocabulary for conflict resolution (C15, C01) -/

/-- no two members are equal in Python's sense (labels occur once inside a segment) -/
def PyNodup (xs : List APos) : Prop := xs.Pairwise (fun a b => a.pyEq b = false)

def FirstIsPair (xs : List APos) : Prop := ∃ p, xs.head? = some (APos.pair p)
def LastIsPair (xs : List APos) : Prop := ∃ p, xs.getLast? = some (APos.pair p)

/-- pairs strictly ascending on both maps in list order (coordinates; strands are handled by the
    mirrored query coordinates) -/
def PairsAscending (xs : List APos) : Prop :=
  (pairsOf xs).Pairwise (fun a b => a.r.pos < b.r.pos ∧ a.q.pos < b.q.pos)

/-- what the resolver may assume of a segment used on the left of a step -/
structure LeftOK (s : Seg) : Prop where
  nodup : PyNodup s.items
  last  : s.items = [] ∨ LastIsPair s.items
  asc   : PairsAscending s.items

/-- … and on the right of a step -/
structure RightOK (s : Seg) : Prop where
  nodup : PyNodup s.items
  first : s.items = [] ∨ FirstIsPair s.items
  asc   : PairsAscending s.items

/-- a segment as the factory cuts it: empty, or starting and ending on a pair (C13 (b)) -/
def FactoryLike (s : Seg) : Prop := LeftOK s ∧ RightOK s

/-- distinct labels have distinct coordinates across the two segments -/
def StrictCoords (a b : Seg) : Prop :=
  ∀ p ∈ a.pairs, ∀ p' ∈ b.pairs, (p.r.pos = p'.r.pos → p.r = p'.r) ∧ (p.q.pos = p'.q.pos → p.q = p'.q)

/-- every pair of `a` lies strictly before every pair of `b` on both maps: no shared label,
    no crossing -/
def Separated (a b : Seg) : Prop :=
  ∀ p ∈ a.pairs, ∀ p' ∈ b.pairs, p.r.pos < p'.r.pos ∧ p.q.pos < p'.q.pos

/-- two segments name the same reference or query label (decidable, for closed witnesses) -/
def sharesLabel (a b : Seg) : Bool :=
  a.pairs.any fun p => b.pairs.any fun p' => decide (p.r.site = p'.r.site) || decide (p.q.site = p'.q.site)

/-- the parameter ranges the option help allows and the factory accepts -/
structure GoodParams (P : Params) : Prop where
  su_nonpos  : P.su ≤ 0
  ms_pos     : 0 < P.minScore
  bst_nonneg : 0 ≤ P.bst
  md_nonneg  : 0 ≤ P.md

/-- the position list one seed peak produces (aligner.py:105-111) -/
def peakPositions (P : Params) (ref qry : OMap) (rev : Bool) (it peak : Int) : List APos :=
  engineAlign P.md ref qry peak (peak + qry.length) rev it

/-! ### relabelling of query labels / erasure of the unobservable `source` (C09, C11) -/

/-- change query label numbers by `σ` and the `source` field by `τ`; everything else is kept -/
def relabelPr (σ τ : Int → Int) (p : Pr) : Pr :=
  { r := p.r, q := ⟨σ p.q.site, p.q.pos⟩, shift := p.shift, src := τ p.src }

def relabelAPos (σ τ : Int → Int) : APos → APos
  | .pair p   => .pair (relabelPr σ τ p)
  | .uref r   => .uref r
  | .uqry q s => .uqry ⟨σ q.site, q.pos⟩ s

def relabelSeg (σ τ : Int → Int) (s : Seg) : Seg := ⟨s.peak, s.items.map (relabelAPos σ τ)⟩

/-- erase `source` everywhere in a row -/
def eraseSrcRow (r : Row) : Row :=
  { r with segments := r.segments.map (relabelSeg id (fun _ => 0)) }

/-- the mirror image of a candidate row: query labels renumbered k ↦ n+1−k, strand flipped,
    query start/end exchanged -/
def mirrorRow (n : Int) (r : Row) : Row :=
  { r with segments := r.segments.map (relabelSeg (fun k => n + 1 - k) id), rev := !r.rev,
           qStart := r.qEnd, qEnd := r.qStart }

/-- no reference label of the search window has two query labels at the same distance within
    maxDistance (true on a lattice when maxDistance is below half the lattice step) -/
def NoTies (md start : Int) (refs qs : List Lbl) : Prop :=
  ∀ r ∈ refs, ∀ q ∈ qs, ∀ q' ∈ qs, q ≠ q' →
    (offset start r q).natAbs ≤ md → (offset start r q').natAbs ≤ md →
    (offset start r q).natAbs ≠ (offset start r q').natAbs

/-! ### exact copies (C06) -/

-- `defaultParams` (the defaults of src/args.py) is defined in Coma/SegFactory.lean and tied to args.py by the DEFAULTS op

/-- the trimmed query that is an exact copy of the reference window `win` (absolute
    coordinates), given on strand `rev` -/
def copyQuery (id : Int) (win : List Int) (rev : Bool) : OMap :=
  let rel := win.map (· - win.headD 0)
  let last := lastD 0 rel
  { id := id, length := last + 1, positions := if rev then (rel.map (last - ·)).reverse else rel, shift := 0 }

/-- the true label-to-label pairs of a copy of `n` labels starting at reference label `i0+1` -/
def truePairs (i0 n : Nat) (rev : Bool) : List (Int × Int) :=
  (List.range n).map fun j => (((i0 + 1 + j : Nat) : Int), if rev then ((n - j : Nat) : Int) else ((j + 1 : Nat) : Int))

/-- the records of one query in every file of a run -/
def restrictOutput (o : Output) (id : Int) : Output :=
  { main := o.main.filter (fun r => r.queryId = id),
    extra := o.extra.map fun (x : Nat × List Row) => (x.1, x.2.filter (fun r => r.queryId = id)) }


end Coma.Spec
