/-
  Props/Defs.lean — specification vocabulary used by the property theorems (no Mathlib).
-/
import Coma.Passes
import Coma.Vector
import Coma.Compare
import Coma.Indel
namespace Coma.Spec
open Coma

/-- sum of `scores[a..b)` -/
def sumRange (scores : List Int) (a b : Nat) : Int := sumInts ((scores.drop a).take (b - a))

/-- total of a chain: member scores plus join scores of consecutive members; `none` = −∞ -/
def chainTotal {α} (score : α → Rat) (join : α → α → Option Rat) : List α → Option Rat
  | []          => some 0
  | [a]         => some (score a)
  | a :: b :: t =>
    match join a b, chainTotal score join (b :: t) with
    | some j, some r => some (score a + j + r)
    | _, _           => none

/-- `R` holds between every two consecutive members -/
def Consec {α} (R : α → α → Prop) : List α → Prop
  | []          => True
  | [_]         => True
  | a :: b :: t => R a b ∧ Consec R (b :: t)

/-- `x ≤ y` where `none` is −∞ on the left -/
def leOpt (x : Option Rat) (y : Rat) : Prop :=
  match x with
  | none   => True
  | some v => v ≤ y

/-- reference / query label carried by an alignment position -/
def refLabel? : APos → Option Lbl
  | .pair p => some p.r
  | .uref r => some r
  | .uqry _ _ => none

def qryLabel? : APos → Option Lbl
  | .pair p => some p.q
  | .uqry q _ => some q
  | .uref _ => none

def pairsOf (xs : List APos) : List Pr := xs.filterMap APos.pair?

/-- offset of a (reference, query) label pair from the seed diagonal -/
def offset (start : Int) (r q : Lbl) : Int := q.pos - (r.pos - start)

/-- a list of integers is ascending (non-strict) -/
def Ascending (xs : List Int) : Prop := xs.Pairwise (· ≤ ·)
def StrictAscending (xs : List Int) : Prop := xs.Pairwise (· < ·)

/-- a matching given by site-id pairs is valid for a strand: reference strictly ascending,
    query strictly ascending ('+') / descending ('-') -/
def ValidMatching (rev : Bool) (ps : List (Int × Int)) : Prop :=
  ps.Pairwise (fun a b => a.1 < b.1 ∧ (if rev then b.2 < a.2 else a.2 < b.2))

def sitePairs (ps : List Pr) : List (Int × Int) := ps.map fun p => (p.r.site, p.q.site)

/-- pointwise relation between two lists of equal length -/
inductive Forall2 {α β} (R : α → β → Prop) : List α → List β → Prop
  | nil : Forall2 R [] []
  | cons {a b as bs} : R a b → Forall2 R as bs → Forall2 R (a :: as) (b :: bs)

/-- cluster `c` summarises the consecutive group `g` of input indel calls -/
def Summarises (c : Call) (g : List Call) : Prop :=
  g ≠ [] ∧
  c.count = (g.map (·.count)).sum ∧
  c.qids = g.flatMap (·.qids) ∧
  (∀ m ∈ g, m.isIns = c.isIns ∧ m.chrom = c.chrom) ∧
  (∀ m ∈ g, c.rStart ≤ m.rStart ∧ m.rStop ≤ c.rStop) ∧
  (∃ m ∈ g, m.rStart = c.rStart) ∧ (∃ m ∈ g, m.rStop = c.rStop)

/-- contract of `difflib.SequenceMatcher` as used by the comparer: `M a b` is the total size of
    the matching blocks -/
structure MatcherOK (M : List BPair → List BPair → Nat) : Prop where
  le_min   : ∀ a b, M a b ≤ min a.length b.length
  refl     : ∀ a, M a a = a.length
  symm_pos : ∀ a b, 0 < M a b ↔ 0 < M b a

end Coma.Spec
