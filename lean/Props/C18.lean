/-
  Props/C18.lean — PROPERTY THEOREMS for C18 (XMAP written by COMA reads back to the same
  alignments).  Statements only; proofs in Proofs/Xmap.lean.

  `XRow.fields` models the writer's data line (src/parsers/xmap_reader.py:63-80: column order,
  `{:.1f}` / `{:.2f}`, `(r,q)(r,q)…`), `readXRow?` the reader on a tokenised line
  (xmap_reader.py:21-33, 82-92; xmap_alignment_pair_parser.py; bionano_alignment.py:24-41:
  `int()` truncation).  pandas' tokeniser is not modelled (a line is its list of tab-separated
  fields).  Quantifier: every record (any ids, coordinates, confidence, both strands, any
  HitEnum string, any non-empty pair list), any number of records including zero.
-/
import Props.Defs
import Proofs.Xmap
namespace Coma.Props
open Coma Coma.Spec

theorem C18_nat_roundtrip (n : Nat) : parseNat? (renderNat n).toList = some n :=
  Coma.Proofs.nat_roundtrip n

theorem C18_int_roundtrip (i : Int) : parseInt? (renderInt i).toList = some i :=
  Coma.Proofs.int_roundtrip i

/-- `{:.1f}` of an integral coordinate reads back (after `int()`) as that integer -/
theorem C18_coord_roundtrip (x : Int) : parseTrunc? (renderFixed 1 (x * 10)).toList = some x :=
  Coma.Proofs.coord_roundtrip x

/-- `{:.df}` then `int()` truncates toward zero -/
theorem C18_fixed_trunc (d : Nat) (v : Int) : parseTrunc? (renderFixed d v).toList = some (Int.tdiv v (10 ^ d)) :=
  Coma.Proofs.fixed_trunc d v

/-- confidence survives to two decimals -/
theorem C18_conf_roundtrip (c : Int) : parseHundredths? (renderFixed 2 c).toList = some c :=
  Coma.Proofs.conf_roundtrip c

/-- the Alignment column round-trips for every non-empty pair list, order preserved -/
theorem C18_pairs_roundtrip (ps : List (Int × Int)) (hne : ps ≠ []) :
    parsePairs? (renderPairs ps).toList = some ps :=
  Coma.Proofs.pairs_roundtrip ps hne

/-- what the reader must return for a written record -/
def _root_.Coma.XRow.asRead (x : XRow) : XRead :=
  { entryId := x.entryId, qid := x.qid, rid := x.rid, qStart := x.qStart, qEnd := x.qEnd,
    rStart := x.rStart, rEnd := x.rEnd, rev := x.rev, conf100 := x.conf100, hitEnum := x.hitEnum,
    qLen := x.qLen, rLen := x.rLen, pairs := x.pairs }

/-- one record: same ids, orientation, HitEnum and label pairs; coordinates and lengths equal
    to the written values; confidence to two decimals -/
theorem C18_row_roundtrip (x : XRow) (hne : x.pairs ≠ []) : readXRow? x.fields = some x.asRead :=
  Coma.Proofs.row_roundtrip x hne

/-- a whole file: one alignment per record, in order — including the file with zero records -/
theorem C18_file_roundtrip (xs : List XRow) (hne : ∀ x ∈ xs, x.pairs ≠ []) :
    readXmap? (xs.map XRow.fields) = some (xs.map XRow.asRead) :=
  Coma.Proofs.file_roundtrip xs hne

theorem C18_empty_file : readXmap? [] = some [] := rfl

/-- non-vacuity -/
example : (⟨3, 12, 1, 0, 54321, 1000, 60000, true, 123456, "3M1D2M", 60001, 999999, false, [(4, 9), (5, 8)]⟩ : XRow).line =
    "3\t12\t1\t0.0\t54321.0\t1000.0\t60000.0\t-\t1234.56\t3M1D2M\t60001.0\t999999.0\tFalse\t1\t(4,9)(5,8)" := by
  decide +kernel

end Coma.Props
