/-
  Props/C07.lean — PROPERTY THEOREMS for C07 (well-formed input never aborts the run; unalignable
  queries just yield no record).  The model makes every Python raise point of the alignment logic
  explicit (`Except Err`), and the theorems below show none of them is reached — in ANY output mode
  (`C07_execute_total`): first pass, fragments, second pass, grouping, joins (after the `fix:` of
  the trailing-trim loop, F11), mode dispatch.  Writing is total on rows that are valid matchings
  (`C07_render_total_of_valid`).

  FULL STATEMENT: "for all well-formed maps, seed tables, modes and allowed parameters
  `runProgram … ≠ .error _`".  Proved: `execute` is total in every mode; rendering is total on
  valid matchings.  What remains outside the theorems (PARTIAL): (1) the HitEnum walk on the
  known-finding candidates (KF-a / KF-b, see C01) that are not valid matchings — the walk is total
  on those too after F1, but this is exercised by the harness rather than proved; (2) exceptions
  inside numpy / scipy / pandas on degenerate arrays in the PRIMARY seeding stage (a parameter of the
  model), which the degenerate end-to-end stream exercises against the real program.  The SECONDARY
  stage is in the model: `C07_refine_total` says exactly when it raises (never, for a primary peak
  not beyond the last reference label by more than the margin).
-/
import Props.Defs
import Props.C18
import Proofs.SrcBlind
import Proofs.Compose
import Proofs.Peaks
import Proofs.SeededTotal
import Proofs.SeedingGlue
import Proofs.SecondPass
import Proofs.Total
import Proofs.Ties
import Proofs.TiesRun
import Proofs.TiesMore
namespace Coma.Props
open Coma Coma.Spec

/-- building a candidate from any list of seed peaks never raises (pairing, scoring, the segment
    scan, chaining, the whole conflict-resolution pass, the header) — for weakly ascending label coordinates, i.e. also
    for molecules with coincident labels -/
theorem C07_candidate_total (P : Params) (C : ChainCfg) (hP : GoodParams P) (ref qry : OMap) (peaks : List Int)
    (rev : Bool) (it : Int) (hr : Ascending ref.positions) (hq : Ascending qry.positions) :
    ∃ row, alignerAlign P C ref qry peaks rev it = .ok row :=
  Coma.Proofs.alignerAlign_total_weak P C hP ref qry peaks rev it hr hq

/-- the first pass never raises, for any seed table whose seeds name references that were read -/
theorem C07_first_pass_total (cfg : Cfg) (hP : GoodParams cfg.P) (refs : List OMap) (t : SeedTable) (qs : List OMap) (it : Int)
    (hrefs : ∀ r ∈ refs, Ascending r.positions) (hqs : ∀ q ∈ qs, Ascending q.positions)
    (hseeds : ∀ q ∈ qs, ∀ s ∈ t.lookup q.key, ∃ r ∈ refs, r.id = s.refId) :
    ∃ rows, executeSingle cfg refs t qs it = .ok rows :=
  Coma.Proofs.executeSingle_total_weak' cfg hP refs t qs it hrefs hqs hseeds

/-- computing the unaligned fragments of a first-pass record never raises: the query is found by
    id and the record's start/end coordinates occur in its position list -/
theorem C07_fragments_total (P : Params) (C : ChainCfg) (hP : GoodParams P) (ref q : OMap) (peaks : List Int)
    (rev : Bool) (it : Int) (hr : Ascending ref.positions) (hq : Ascending q.positions)
    (hshift : q.shift = 0) (row : Row) (h : alignerAlign P C ref q peaks rev it = .ok row) (hp : row.pairs ≠ [])
    (queries : List OMap) (hfind : queries.find? (fun m => m.id = row.queryId) = some q) :
    ∃ frags, unalignedFragments row queries = .ok frags ∧
      ∀ f ∈ frags, Ascending f.positions ∧ f.id = q.id :=
  Coma.Proofs.unalignedFragments_total_weak P C hP ref q peaks rev it hr hq hshift row h hp queries hfind

/-- the second pass never raises -/
theorem C07_second_pass_total (cfg : Cfg) (hP : GoodParams cfg.P) (refs : List OMap) (t : SeedTable) (qs : List OMap) (it : Int)
    (hrefs : ∀ r ∈ refs, Ascending r.positions) (hqs : ∀ q ∈ qs, Ascending q.positions ∧ q.shift = 0)
    (hids : (qs.map (·.id)).Nodup)
    (hseeds : ∀ k, ∀ s ∈ t.lookup k, ∃ r ∈ refs, r.id = s.refId)
    (first : List Row) (h1 : executeSingle cfg refs t qs it = .ok first) :
    ∃ second, secondPass cfg refs t qs first it = .ok second :=
  Coma.Proofs.secondPass_total_weak cfg hP refs t qs it hrefs hqs hids hseeds first h1

/-- whole-run totality of the alignment logic, EVERY output mode ('single', 'separate', 'joined',
    'all', 'best'): first pass, fragments, second pass, grouping, joins, mode dispatch — for WEAKLY ascending label
    coordinates: molecules with coincident labels are legal input and are inside the theorem (Proofs/Ties.lean,
    Proofs/TiesRun.lean; non-vacuity witnesses with coincident labels at a record's start and end: `TiesRun.witness_*`) -/
theorem C07_execute_total (cfg : Cfg) (mode : Mode) (hP : GoodParams cfg.P) (refs : List OMap) (t : SeedTable) (qs : List OMap) (it : Int)
    (hrefs : ∀ r ∈ refs, Ascending r.positions) (hqs : ∀ q ∈ qs, Ascending q.positions ∧ q.shift = 0)
    (hids : (qs.map (·.id)).Nodup)
    (hseeds : ∀ k, ∀ s ∈ t.lookup k, ∃ r ∈ refs, r.id = s.refId) :
    ∃ out, execute cfg mode refs t qs it = .ok out :=
  Coma.Proofs.execute_total_weak cfg mode hP refs t qs it hrefs hqs hids hseeds

/-- one resolver step can only raise when a non-empty segment has no aligned pair -/
theorem C07_resolve_step_total (P : Params) (L R : Seg)
    (hL : L.items = [] ∨ L.pairs ≠ []) (hR : R.items = [] ∨ R.pairs ≠ []) :
    ∃ l r b, resolvePairB P L R = .ok (l, r, b) :=
  Coma.Proofs.resolvePairB_total_of_pairs P L R hL hR

/-- the first segment of every candidate row is empty or keeps a pair: what the join reads -/
theorem C07_candidate_first_segment (P : Params) (C : ChainCfg) (hP : GoodParams P) (ref qry : OMap) (peaks : List Int)
    (rev : Bool) (it : Int) (hr : Ascending ref.positions) (hq : Ascending qry.positions)
    (row : Row) (h : alignerAlign P C ref qry peaks rev it = .ok row) :
    ∀ s, row.segments.head? = some s → s.items = [] ∨ s.pairs ≠ [] :=
  Coma.Proofs.alignerAlign_first_segment_weak P C hP ref qry peaks rev it hr hq row h

/-- writing never raises on rows that are valid matchings -/
theorem C07_render_total_of_valid (cfg : Cfg) (rows : List Row)
    (hv : ∀ r ∈ rows, r.pairs = [] ∨ ValidMatching r.rev (sitePairs r.pairs)) :
    ∃ lines, renderRows cfg rows = .ok lines :=
  Coma.Proofs.renderRows_total_of_valid cfg rows hv

/-- the modes without a join: 'separate' (first- and second-pass files) and single-pass
    (instances of `C07_execute_total`, kept because they need fewer hypotheses) -/
theorem C07_separate_mode_total (cfg : Cfg) (hP : GoodParams cfg.P) (refs : List OMap) (t : SeedTable) (qs : List OMap) (it : Int)
    (hrefs : ∀ r ∈ refs, Ascending r.positions) (hqs : ∀ q ∈ qs, Ascending q.positions ∧ q.shift = 0)
    (hids : (qs.map (·.id)).Nodup)
    (hseeds : ∀ k, ∀ s ∈ t.lookup k, ∃ r ∈ refs, r.id = s.refId) :
    ∃ out, execute cfg .separate refs t qs it = .ok out :=
  Coma.Proofs.execute_separate_total_weak cfg hP refs t qs it hrefs hqs hids hseeds

theorem C07_single_mode_total (cfg : Cfg) (hP : GoodParams cfg.P) (refs : List OMap) (t : SeedTable) (qs : List OMap) (it : Int)
    (hrefs : ∀ r ∈ refs, Ascending r.positions) (hqs : ∀ q ∈ qs, Ascending q.positions ∧ q.shift = 0)
    (hseeds : ∀ k, ∀ s ∈ t.lookup k, ∃ r ∈ refs, r.id = s.refId) :
    ∃ out, execute cfg .single refs t qs it = .ok out :=
  Coma.Proofs.execute_single_total_weak cfg hP refs t qs it hrefs hqs hseeds

/-- a query that cannot be seeded (no correlation peak: too long for every reference, too few
    labels) contributes no record and does not change the records of the others -/
theorem C07_unalignable_silent (cfg : Cfg) (refs : List OMap) (t : SeedTable) (q : OMap) (qs : List OMap) (it : Int)
    (h : t.lookup q.key = []) :
    executeSingle cfg refs t (q :: qs) it = executeSingle cfg refs t qs it :=
  Coma.Proofs.executeSingle_unalignable cfg refs t q qs it h

/-- every file COMA writes can be read back, including the file with zero records -/
theorem C07_readback (xs : List XRow) (hne : ∀ x ∈ xs, x.pairs ≠ []) :
    ∃ als, readXmap? (xs.map XRow.fields) = some als ∧ als.length = xs.length :=
  ⟨xs.map XRow.asRead, C18_file_roundtrip xs hne, by simp⟩

theorem C07_readback_empty : readXmap? [] = some [] := rfl

/-- what the unrepaired trailing-trim loop did (F11): the conflicting part of a segment consisting
    only of an unpaired label beyond the other segment's range was popped completely and the next
    `positions[-1]` raised IndexError — reachable by joining a first-pass record whose first segment
    ends on an unpaired label with the alignment of its unaligned rest -/
theorem C07_unrepaired_trim_counterexample :
    (trimEndUnguarded ⟨⟨11, 110000⟩, ⟨3, 20000⟩, 0, 0⟩ [APos.uref ⟨13, 150000⟩]).toOption = none ∧
    (trimEnd ⟨⟨11, 110000⟩, ⟨3, 20000⟩, 0, 0⟩ [APos.uref ⟨13, 150000⟩]).toOption = some [] := by
  decide +kernel

/-- after the repair the trailing trim is total -/
theorem C07_trim_total (e : Pr) (xs : List APos) : ∃ ys, trimEnd e xs = .ok ys := ⟨_, rfl⟩

/-- non-vacuity of the parameter hypothesis: the defaults -/
example : GoodParams defaultParams := ⟨by decide, by decide, by decide, by decide⟩

/-- the refinement of a primary peak (secondary correlation, `find_peaks`, top ten) raises exactly when no
    reference label lies at or after the start of the refinement window — scipy's `correlate` then gets
    an empty array — and in no other case, whatever the molecule, strand, peak and (valid) parameters -/
theorem C07_refine_total (c : SecCfg) (ref q : OMap) (rev : Bool) (peak : Int) (hres : 1 ≤ c.res) (hb : 0 ≤ c.blur)
    (hqs : Ascending q.positions) (hrs : Ascending ref.positions)
    (hq : ∃ p ∈ q.positions, 0 ≤ p) (hr : ref.positions ≠ []) :
    (∃ pk, refine c ref q rev peak = .ok pk) ↔ ∃ p ∈ ref.positions, peak - c.margin ≤ p :=
  Coma.Proofs.refine_ok_iff c ref q rev peak hres hb hqs hrs hq hr

/-- and the only exception it can raise is that IndexError -/
theorem C07_refine_error_kind (c : SecCfg) (ref q : OMap) (rev : Bool) (peak : Int) (e : Err) (hres : 1 ≤ c.res) (hb : 0 ≤ c.blur)
    (hq : q.positions ≠ []) (hr : ref.positions ≠ []) (h : refine c ref q rev peak = .error e) : e = .indexError :=
  Coma.Proofs.refine_error_kind c ref q rev peak e hres hb hq hr h

/-- WHOLE RUN WITH THE SECONDARY STAGE INSIDE THE MODEL: if every selected primary peak names a reference of the run
    and its refinement window reaches a label of that reference (`PTableOK`; true of every peak the primary stage
    can select, which lies at an interior lag of the primary correlation), then deriving the seed table — vectorise,
    blur, correlate, find_peaks, top ten, for every molecule and fragment — succeeds, and the alignment logic then
    runs to completion in EVERY output mode -/
theorem C07_seeded_run_total (cfg : Cfg) (c : SecCfg) (mode : Mode) (hP : GoodParams cfg.P) (refs qs : List OMap) (pt : PTable) (it : Int)
    (hres : 1 ≤ c.res) (hb : 0 ≤ c.blur)
    (hrefs : ∀ r ∈ refs, Ascending r.positions) (hqs : ∀ q ∈ qs, Ascending q.positions ∧ q.shift = 0)
    (hids : (qs.map (·.id)).Nodup) (hrid : (refs.map (·.id)).Nodup)
    (hpt : Coma.Proofs.PTableOK c refs qs pt) :
    ∃ d out, deriveTable c refs qs pt = .ok d ∧ execute cfg mode refs d.table qs it = .ok out :=
  Coma.Proofs.seeded_execute_total_weak cfg c mode hP refs qs pt it hres hb hrefs hqs hids hrid hpt

/-- the hypothesis of `C07_seeded_run_total` holds for every peak the primary stage can select: a primary peak is the
    centre of an INTERIOR lag `k` of the primary correlation (scipy's `find_peaks` never returns the first or the last
    sample), the reference vector ends with the bin of the last reference label, so the refinement window (which starts
    `margin ≥ 0` before the peak) always reaches a reference label — at every primary resolution and blur -/
theorem C07_primary_peak_window (res1 blur1 margin : Int) (ref : OMap) (rv : List Nat) (k : Nat)
    (hres : 1 ≤ res1) (hm : 0 ≤ margin) (hasc : Ascending ref.positions) (hnn : ∀ p ∈ ref.positions, 0 ≤ p)
    (hv : sequenceOf res1 blur1 ref.positions 0 none = .ok rv) (hk : k + 1 < rv.length) :
    ∃ p ∈ ref.positions, toBp (k : Int) res1 0 - margin ≤ p :=
  Coma.Proofs.primary_peak_window_ok res1 blur1 margin ref rv k hres hm hasc hnn hv hk

/-- non-vacuity / the error branch: a window that starts after the last reference label -/
example : refine {} { id := 1, length := 50000, positions := [1000, 9000] } { id := 2, length := 701, positions := [0, 700] } false 30000
    = .error .indexError := by decide +kernel

end Coma.Props
