/-
  Props/C02.lean — PROPERTY THEOREMS for C02 (record fields agree with the listed pairs and with
  the input maps).  Statements only; proofs in Proofs/Fields.lean, Proofs/FieldsOrder.lean.

  Models: `Row.create` (src/alignment/alignment_results.py:68-86), `OMap.labels`
  (src/correlation/optical_map.py:45-56), `unalignedFragments` (alignment_results.py:179-228),
  `renderRows` / `XRow.fields` (src/parsers/xmap_reader.py:63-80).
  Quantifier: all segment lists, maps, strands, fragments; every record of every file.
-/
import Props.Defs
import Proofs.Fields
import Proofs.FieldsOrder
namespace Coma.Props
open Coma Coma.Spec

/-- label numbers and coordinates: the k-th label from the left is number k+1+shift on either
    strand; '-' strand coordinates are measured from length-1 (for a trimmed query: from its last
    label), '+' strand coordinates from 0 (its first label) -/
theorem C02_label_coords (m : OMap) (rev : Bool) :
    (m.labels rev).length = m.positions.length ∧
    ∀ l, l ∈ m.labels rev ↔ ∃ k : Nat, ∃ p, m.positions[k]? = some p ∧ l.site = (k : Int) + 1 + m.shift ∧
        l.pos = (if rev then m.length - 1 - p else p) :=
  Coma.Proofs.labels_spec m rev

/-- header fields of a record whose pairs are listed in ascending reference order (C01): Ref
    start/end = coordinates of the first/last listed reference label; Qry start/end = coordinates
    of the two outermost query labels, exchanged for '-'; ids, lengths, strand copied -/
theorem C02_header (P : Params) (segs : List Seg) (qid rid ql rl : Int) (rev : Bool) (first last : Pr)
    (hf : (segs.flatMap Seg.pairs).head? = some first) (hl : (segs.flatMap Seg.pairs).getLast? = some last)
    (ha : Ascending ((segs.flatMap Seg.pairs).map (fun p => p.r.pos))) :
    let row := Row.create P segs qid rid ql rl rev
    row.rStart = first.r.pos ∧ row.rEnd = last.r.pos ∧
    row.qStart = (if rev then last else first).q.pos ∧ row.qEnd = (if rev then first else last).q.pos ∧
    row.queryId = qid ∧ row.referenceId = rid ∧ row.queryLength = ql ∧ row.referenceLength = rl ∧ row.rev = rev ∧
    row.alignedRest = false ∧ row.segments = segs ∧
    row.confidence = sumInts (segs.map (fun s => sumScores P s.items)) :=
  Coma.Proofs.row_create_fields P segs qid rid ql rl rev first last hf hl ha

/-- a candidate carries the ids and lengths of the maps it was built from -/
theorem C02_ids_lengths (P : Params) (C : ChainCfg) (ref qry : OMap) (peaks : List Int) (rev : Bool) (it : Int)
    (row : Row) (h : alignerAlign P C ref qry peaks rev it = .ok row) :
    row.queryId = qry.id ∧ row.referenceId = ref.id ∧ row.queryLength = qry.length ∧
    row.referenceLength = ref.length ∧ row.rev = rev ∧ row.alignedRest = false ∧
    row.confidence = sumInts (row.segments.map (fun s => sumScores P s.items)) :=
  Coma.Proofs.alignerAlign_fields P C ref qry peaks rev it row h

/-- second-pass fragments keep the molecule id and full length, and their label numbers and
    coordinates are those of the whole query -/
theorem C02_second_pass (row : Row) (queries : List OMap) (query : OMap) (frags : List OMap)
    (hq : queries.find? (fun m => m.id = row.queryId) = some query)
    (hlen : query.length = row.queryLength) (hshift : query.shift = 0)
    (h : unalignedFragments row queries = .ok frags) :
    ∀ f ∈ frags, f.id = row.queryId ∧ f.length = row.queryLength ∧
      ∀ rev, ∀ l ∈ f.labels rev, l ∈ query.labels rev :=
  Coma.Proofs.fragment_labels_subset row queries query frags hq hlen hshift h

/-- XmapEntryID counts 1,2,3,… and every written field is the row's field -/
theorem C02_entry_ids (cfg : Cfg) (rows : List Row) (lines : List String) (h : renderRows cfg rows = .ok lines) :
    lines.length = rows.length ∧
    ∀ k, k < rows.length → ∃ x : XRow, lines[k]? = some x.line ∧ x.entryId = k + 1 ∧
      ∃ r, rows[k]? = some r ∧ x.qid = r.queryId ∧ x.rid = r.referenceId ∧ x.qStart = r.qStart ∧ x.qEnd = r.qEnd ∧
        x.rStart = r.rStart ∧ x.rEnd = r.rEnd ∧ x.rev = r.rev ∧ x.qLen = r.queryLength ∧ x.rLen = r.referenceLength ∧
        x.alignedRest = r.alignedRest ∧ x.pairs = r.pairs.map (fun p => (p.r.site, p.q.site)) ∧
        x.conf100 = (r.confidence * 100) / (cfg.den : Int) :=
  Coma.Proofs.renderRows_numbering cfg rows lines h

/-- column k of the written line is field k, with `{:.1f}` / `{:.2f}` formatting; Orientation is
    '+' or '-' -/
theorem C02_columns (x : XRow) :
    x.fields.length = 15 ∧ x.fields[0]? = some (renderNat x.entryId) ∧ x.fields[1]? = some (renderInt x.qid) ∧
    x.fields[2]? = some (renderInt x.rid) ∧ x.fields[3]? = some (renderFixed 1 (x.qStart * 10)) ∧
    x.fields[4]? = some (renderFixed 1 (x.qEnd * 10)) ∧ x.fields[5]? = some (renderFixed 1 (x.rStart * 10)) ∧
    x.fields[6]? = some (renderFixed 1 (x.rEnd * 10)) ∧ x.fields[7]? = some (if x.rev then "-" else "+") ∧
    x.fields[8]? = some (renderFixed 2 x.conf100) ∧ x.fields[9]? = some x.hitEnum ∧
    x.fields[10]? = some (renderFixed 1 (x.qLen * 10)) ∧ x.fields[11]? = some (renderFixed 1 (x.rLen * 10)) ∧
    x.fields[12]? = some (if x.alignedRest then "True" else "False") ∧ x.fields[14]? = some (renderPairs x.pairs) :=
  Coma.Proofs.xrow_fields_columns x

/-- non-vacuity: a reverse-strand two-pair segment -/
example : (Row.create ⟨1000, 1, -250, 1500, 1000, 1200⟩
    [⟨500, [.pair ⟨⟨4, 9000⟩, ⟨7, 8500⟩, 0, 0⟩, .pair ⟨⟨5, 12000⟩, ⟨6, 11500⟩, 0, 0⟩]⟩] 3 1 20001 99999 true).qStart = 11500 := by
  decide +kernel

/-- start/end order: reference start ≤ end; query start ≤ end on '+', start ≥ end on '-' — for every record
    whose pairs are listed with ascending reference coordinates and with query coordinates (in the strand's
    frame, as `OMap.labels rev` gives them) ascending along the list -/
theorem C02_start_end_order (P : Params) (segs : List Seg) (qid rid ql rl : Int) (rev : Bool)
    (ha : Ascending ((segs.flatMap Seg.pairs).map (fun p => p.r.pos)))
    (hq : Ascending ((segs.flatMap Seg.pairs).map (fun p => p.q.pos))) :
    let row := Row.create P segs qid rid ql rl rev
    row.rStart ≤ row.rEnd ∧ (rev = false → row.qStart ≤ row.qEnd) ∧ (rev = true → row.qEnd ≤ row.qStart) :=
  Coma.Proofs.row_start_end_order P segs qid rid ql rl rev ha hq

/-- in `m.labels rev` coordinates ascend with the label number on '+', descend on '-' (for a map with ascending positions) -/
theorem C02_frame_monotone (m : OMap) (rev : Bool) (hm : Ascending m.positions) (l1 l2 : Lbl)
    (h1 : l1 ∈ m.labels rev) (h2 : l2 ∈ m.labels rev) (hs : l1.site ≤ l2.site) :
    if rev then l2.pos ≤ l1.pos else l1.pos ≤ l2.pos :=
  Coma.Proofs.labels_frame_monotone m rev hm l1 l2 h1 h2 hs

/-- non-vacuity: a reverse-strand row of two one-pair segments satisfies the hypotheses of
    `C02_start_end_order` and has QryEndPos strictly below QryStartPos -/
example :
    let segs : List Seg := [⟨500, [.pair ⟨⟨4, 9000⟩, ⟨7, 8500⟩, 0, 0⟩]⟩, ⟨700, [.pair ⟨⟨5, 12000⟩, ⟨6, 11500⟩, 0, 0⟩]⟩]
    let row := Row.create ⟨1000, 1, -250, 1500, 1000, 1200⟩ segs 3 1 20001 99999 true
    (segs.flatMap Seg.pairs).map (fun p => p.r.pos) = [9000, 12000] ∧
    (segs.flatMap Seg.pairs).map (fun p => p.q.pos) = [8500, 11500] ∧
    row.qEnd < row.qStart ∧ row.rStart < row.rEnd := by
  decide +kernel

/-- the frame of a trimmed query: on '+' a label's coordinate is its distance from the FIRST label, on '−' its
    distance from the LAST label (label numbers 1, 2, 3, … in file order on both strands) -/
theorem C02_trimmed_frame (m : OMap) (p0 : Int) (ps : List Int) (hp : m.positions = p0 :: ps) (rev : Bool) (l : Lbl) :
    l ∈ m.trim.labels rev ↔ ∃ k : Nat, ∃ p, m.positions[k]? = some p ∧ l.site = (k : Int) + 1 ∧
      l.pos = (if rev then lastD p0 m.positions - p else p - p0) :=
  Coma.Proofs.trim_labels_frame m p0 ps hp rev l

/-- non-vacuity: a three-label molecule, trimmed, read on '−': coordinates 8000, 5000, 0 for labels 1, 2, 3
    (listed from the last label), and 0, 3000, 8000 on '+' -/
example : (OMap.trim ⟨7, 12000, [1000, 4000, 9000], 5⟩).labels true = [⟨3, 0⟩, ⟨2, 5000⟩, ⟨1, 8000⟩] ∧
    (OMap.trim ⟨7, 12000, [1000, 4000, 9000], 5⟩).labels false = [⟨1, 0⟩, ⟨2, 3000⟩, ⟨3, 8000⟩] := by
  decide +kernel

end Coma.Props
