/-
  Props/C17.lean — PROPERTY THEOREMS for C17 (CMAP reading returns every labelled molecule
  exactly; trimming keeps geometry).  Statements only; proofs in Proofs/Cmap.lean.

  `readCmap unit rows ids` models `CmapReader.__read` (src/parsers/cmap_reader.py:23-39) on the
  rows pandas delivers (columns CMapId, LabelChannel, Position; positions in `unit`-ths of a bp,
  unit = 1 or 10); `OMap.trim` models src/correlation/optical_map.py:38-43.
  Quantifier: every row list in any order, any ids, label counts, coordinates; every id filter.
  A molecule without an end-marker row is the modelled IndexError branch (outside "syntactically
  valid").
-/
import Props.Defs
import Proofs.Cmap
namespace Coma.Props
open Coma Coma.Spec

/-- the rows the reader looks at: all, or those of the listed ids -/
def selected (rows : List CRow) (ids : List Int) : List CRow :=
  if ids.isEmpty then rows else rows.filter (fun r => ids.contains r.id)

def labelCoords (rows : List CRow) (id : Int) : List Int :=
  (rows.filter (fun r => r.id = id ∧ r.chan ≠ 0)).map (·.pos)

/-- one map per molecule id with ≥ 1 label, ids strictly ascending; positions are exactly that
    molecule's label coordinates in ascending order; the length is the first end-marker row's
    coordinate truncated to an integer -/
theorem C17_read (unit : Int) (rows : List CRow) (ids : List Int) (ms : List OMap)
    (h : readCmap unit rows ids = .ok ms) :
    StrictAscending (ms.map (·.id)) ∧
    (∀ m ∈ ms, (ids = [] ∨ m.id ∈ ids) ∧
        m.positions.Perm (labelCoords rows m.id) ∧ Ascending m.positions ∧ m.positions ≠ [] ∧ m.shift = 0 ∧
        ∃ em, (rows.filter (fun r => r.id = m.id)).find? (fun r => r.chan = 0) = some em ∧
              m.length = Int.tdiv em.pos unit) ∧
    (∀ r ∈ selected rows ids, r.chan ≠ 0 → ∃ m ∈ ms, m.id = r.id) :=
  Coma.Proofs.readCmap_spec unit rows ids ms h

/-- molecules without labels are skipped (they still need their end marker) -/
theorem C17_skip_unlabelled (unit : Int) (rows : List CRow) (ids : List Int) (ms : List OMap)
    (h : readCmap unit rows ids = .ok ms) (id : Int) (hno : labelCoords (selected rows ids) id = []) :
    ∀ m ∈ ms, m.id ≠ id :=
  Coma.Proofs.readCmap_skip unit rows ids ms h id hno

/-- the only failure: a selected molecule without an end-marker row -/
theorem C17_error_iff (unit : Int) (rows : List CRow) (ids : List Int) :
    (∃ e, readCmap unit rows ids = .error e) ↔
      ∃ r ∈ selected rows ids, ∀ r' ∈ selected rows ids, r'.id = r.id → r'.chan ≠ 0 :=
  Coma.Proofs.readCmap_error_iff unit rows ids

/-- an id filter is the same as reading a file physically restricted to those molecules -/
theorem C17_filter (unit : Int) (rows : List CRow) (ids : List Int) (hne : ids ≠ []) :
    readCmap unit rows ids = readCmap unit (rows.filter (fun r => ids.contains r.id)) [] :=
  Coma.Proofs.readCmap_filter unit rows ids hne

/-- row order and molecule order in the file do not matter (one end marker per molecule) -/
theorem C17_perm (unit : Int) (rows rows' : List CRow) (ids : List Int) (hp : rows.Perm rows')
    (h1 : ∀ id, (rows.filter (fun r => r.id = id ∧ r.chan = 0)).length ≤ 1) :
    readCmap unit rows ids = readCmap unit rows' ids :=
  Coma.Proofs.readCmap_perm unit rows rows' ids hp h1

/-- trimming: first label at 0, same number of labels, all distances kept, length = last − first
    + 1, id kept, idempotent -/
theorem C17_trim (m : OMap) (p0 : Int) (ps : List Int) (hp : m.positions = p0 :: ps) :
    m.trim.positions = m.positions.map (· - p0) ∧
    m.trim.positions.head? = some 0 ∧
    m.trim.positions.length = m.positions.length ∧
    m.trim.length = lastD p0 m.positions - p0 + 1 ∧
    m.trim.id = m.id ∧
    m.trim.trim = m.trim :=
  Coma.Proofs.trim_spec m p0 ps hp

theorem C17_trim_empty (m : OMap) (h : m.positions = []) : m.trim = m :=
  Coma.Proofs.trim_empty m h

/-- non-vacuity: shuffled rows, two molecules, one without labels -/
example : (readCmap 10 [⟨2, 1, 300⟩, ⟨1, 0, 12345⟩, ⟨2, 0, 999⟩, ⟨2, 1, 105⟩, ⟨3, 0, 50⟩] []).toOption =
    some [⟨2, 99, [105, 300], 0⟩] := by decide +kernel

end Coma.Props
