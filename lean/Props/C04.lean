/-
  Props/C04.lean — PROPERTY THEOREMS for C04 (confidence is exactly the configured score of what
  is reported).  Statements only; proofs in Proofs/Fields.lean, Proofs/Compose.lean, Proofs/Pairing.lean.

  Models: `APos.score` (src/alignment/alignment_position.py:26-30, 133-136), `Seg.score`
  (segments.py:15-21, 135-141), `Row.create` confidence (alignment_results.py:83), `engineAlign`
  (aligner.py:53-64), `alignerAlign`.  Quantifier: all maps, seed peaks, strands and all values of the
  options sp, dp, su, d, ms, bs within the ranges the option help allows (`GoodParams`).
-/
import Props.Defs
import Proofs.Fields
import Proofs.Compose
import Proofs.Pairing
import Proofs.Translate
import Proofs.Ties
namespace Coma.Props
open Coma Coma.Spec

/-- score of a reported pair / of an unpaired label, from the configured values -/
theorem C04_member_score (P : Params) :
    (∀ p : Pr, (APos.pair p).score P = P.sp - P.dp * (p.shift.natAbs : Int)) ∧
    (∀ r, (APos.uref r).score P = P.su) ∧ (∀ q s, (APos.uqry q s).score P = P.su) :=
  ⟨fun _ => rfl, fun _ => rfl, fun _ _ => rfl⟩

/-- a candidate's confidence is the sum over its segments of the sum over their members -/
theorem C04_confidence (P : Params) (C : ChainCfg) (ref qry : OMap) (peaks : List Int) (rev : Bool) (it : Int)
    (row : Row) (h : alignerAlign P C ref qry peaks rev it = .ok row) :
    row.confidence = sumInts (row.segments.map (fun s => sumScores P s.items)) :=
  (Coma.Proofs.alignerAlign_fields P C ref qry peaks rev it row h).2.2.2.2.2.2

/-- every segment of a candidate — also after chaining and trimming — is a contiguous run of
    the position list of ONE of the seed peaks, carrying that peak: no label inside its span is
    left unaccounted for, none is counted twice (the position list contains every label of the
    window exactly once: C12).  Holds for weakly ascending coordinates, i.e. also with coincident labels. -/
theorem C04_accounted (P : Params) (C : ChainCfg) (hP : GoodParams P) (ref qry : OMap) (peaks : List Int)
    (rev : Bool) (it : Int) (hr : Ascending ref.positions) (hq : Ascending qry.positions)
    (row : Row) (h : alignerAlign P C ref qry peaks rev it = .ok row) :
    ∀ s ∈ row.segments, s.items = [] ∨
      ∃ peak ∈ peaks, ∃ it', s.peak = peak ∧ s.items <:+: peakPositions P ref qry rev it' peak :=
  Coma.Proofs.alignerAlign_accounted_weak P C hP ref qry peaks rev it hr hq row h

/-- a pair's offset is query − (reference − seed peak) and never exceeds maxPairDistance -/
theorem C04_offset (P : Params) (ref qry : OMap) (rev : Bool) (it peak : Int) (hq : Ascending qry.positions)
    (p : Pr) (hp : APos.pair p ∈ peakPositions P ref qry rev it peak) :
    p.shift = offset peak p.r p.q ∧ -P.md ≤ p.shift ∧ p.shift ≤ P.md :=
  (Coma.Proofs.engine_within P.md ref qry peak (peak + qry.length) rev it hq p hp).2.2

/-! ### nothing depends on the magnitude of the reference coordinates -/

/-- Moving the reference `d` bp along its chromosome (every label, its length, and the seed peaks with it) moves every
    segment of the candidate alignment by `d` and changes nothing else: the same label numbers are paired with the same
    recorded offsets, the same unpaired labels are charged, the confidence and the query span are the same — for every
    parameter set, strand, seed list and `d` (also negative).  A score, threshold or tolerance that grows with the
    coordinate (float32 coordinates, `np.isclose` with its relative default) contradicts this theorem. -/
theorem C04_translation_invariant (P : Params) (C : ChainCfg) (ref qry : OMap) (peaks : List Int) (rev : Bool) (it : Int) (d : Int) :
    (alignerAlign P C (Coma.Proofs.shiftRef d ref) qry (peaks.map (· + d)) rev it).map
        (fun r => (r.segments, r.confidence, r.qStart, r.qEnd))
      = (alignerAlign P C ref qry peaks rev it).map
        (fun r => (r.segments.map (Coma.Proofs.shiftSeg d), r.confidence, r.qStart, r.qEnd)) :=
  Coma.Proofs.alignerAlign_shift P C ref qry peaks rev it d

/-- non-vacuity / sanity: a translated segment has the same score -/
example : (Coma.Proofs.shiftSeg 240000000 ⟨5, [.pair ⟨⟨1, 5⟩, ⟨1, 0⟩, 0, 0⟩, .uref ⟨2, 900⟩]⟩).score defaultParams
    = (⟨5, [.pair ⟨⟨1, 5⟩, ⟨1, 0⟩, 0, 0⟩, .uref ⟨2, 900⟩]⟩ : Seg).score defaultParams := by decide

end Coma.Props
