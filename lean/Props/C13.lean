/-
  Props/C13.lean — PROPERTY THEOREMS for C13 (segments are maximal positive-scoring runs that
  respect both thresholds).  Statements only; proofs live in Proofs/SegFactory.lean.

  Quantifier: every score list of every length, every minScore > 0, every
  breakSegmentThreshold ≥ 0.  `scanRanges` is the model of
  `_AlignmentSegmentBuilder.getSegments` (src/alignment/segments_factory.py:41-73).
-/
import Props.Defs
import Proofs.SegFactory
import Proofs.Extra
import Proofs.FirstRun
namespace Coma.Props
open Coma Coma.Spec

/-- (a) ranges are non-empty, inside the list, in order, disjoint and separated by at least one
    skipped position -/
theorem C13_ordered_separated (ms bst : Int) (scores : List Int) (hms : 0 < ms) (hb : 0 ≤ bst) :
    (∀ r ∈ scanRanges ms bst scores, r.start < r.stop ∧ r.stop ≤ scores.length) ∧
    (scanRanges ms bst scores).Pairwise (fun r1 r2 => r1.stop < r2.start) :=
  Coma.Proofs.scan_ordered_separated ms bst scores hms hb

/-- (b) every segment starts and ends on a positively scored position -/
theorem C13_ends_positive (ms bst : Int) (scores : List Int) (hms : 0 < ms) (hb : 0 ≤ bst) :
    ∀ r ∈ scanRanges ms bst scores,
      0 < scores.getD r.start 0 ∧ 0 < scores.getD (r.stop - 1) 0 :=
  Coma.Proofs.scan_ends_positive ms bst scores hms hb

/-- (c) the recorded score is the sum of the members and reaches minScore -/
theorem C13_score (ms bst : Int) (scores : List Int) (hms : 0 < ms) (hb : 0 ≤ bst) :
    ∀ r ∈ scanRanges ms bst scores, r.score = sumRange scores r.start r.stop ∧ ms ≤ r.score :=
  Coma.Proofs.scan_score ms bst scores hms hb

/-- (d) every running prefix sum is positive and stays above every *earlier* prefix sum minus
    the break threshold (for bst = 0: prefix sums strictly increase) -/
theorem C13_prefix (ms bst : Int) (scores : List Int) (hms : 0 < ms) (hb : 0 ≤ bst) :
    ∀ r ∈ scanRanges ms bst scores, ∀ k, r.start < k → k ≤ r.stop →
      0 < sumRange scores r.start k ∧
      ∀ j, r.start < j → j < k → sumRange scores r.start j - bst < sumRange scores r.start k :=
  Coma.Proofs.scan_prefix ms bst scores hms hb

/-- (e) the segment ends at the first position where its maximum is reached -/
theorem C13_first_max (ms bst : Int) (scores : List Int) (hms : 0 < ms) (hb : 0 ≤ bst) :
    ∀ r ∈ scanRanges ms bst scores, ∀ k, r.start < k → k < r.stop →
      sumRange scores r.start k < r.score :=
  Coma.Proofs.scan_first_max ms bst scores hms hb

/-- (f) it cannot be extended to the right to a higher score without first hitting the break
    condition (prefix ≤ 0 or ≤ maximum − threshold) -/
theorem C13_not_extendable (ms bst : Int) (scores : List Int) (hms : 0 < ms) (hb : 0 ≤ bst) :
    ∀ r ∈ scanRanges ms bst scores, ∀ m, r.stop < m → m ≤ scores.length →
      r.score < sumRange scores r.start m →
      ∃ k, r.stop < k ∧ k < m ∧ sumRange scores r.start k ≤ max 0 (r.score - bst) :=
  Coma.Proofs.scan_not_extendable ms bst scores hms hb

/-- (g) the factory returns the single empty segment exactly when the scan found no run;
    otherwise every returned segment is the slice of the position list named by its range,
    with score = sum of its members ≥ minScore -/
theorem C13_empty_iff (P : Params) (peak : Int) (xs : List APos) :
    (scanRanges P.minScore P.bst (xs.map (APos.score P)) = [] →
        getSegments P peak xs = [⟨peak, []⟩]) ∧
    (scanRanges P.minScore P.bst (xs.map (APos.score P)) ≠ [] →
        getSegments P peak xs =
          (scanRanges P.minScore P.bst (xs.map (APos.score P))).map
            (fun r => ⟨peak, (xs.drop r.start).take (r.stop - r.start)⟩)) :=
  Coma.Proofs.getSegments_spec P peak xs

theorem C13_segment_score (P : Params) (peak : Int) (xs : List APos) (hms : 0 < P.minScore) (hb : 0 ≤ P.bst) :
    ∀ r ∈ scanRanges P.minScore P.bst (xs.map (APos.score P)),
      (⟨peak, (xs.drop r.start).take (r.stop - r.start)⟩ : Seg).score P = r.score :=
  Coma.Proofs.getSegments_score P peak xs hms hb

/-- non-vacuity: the default thresholds on a concrete score list produce two segments -/
example : scanRanges 1000 1200 [1000, 1000, -250, -250, -250, -250, -250, 1000, 500] =
    [⟨0, 2, 2000⟩, ⟨7, 9, 1500⟩] := by decide

end Coma.Props

namespace Coma.Props
open Coma Coma.Spec

/-- completeness at the end of the list: a current run that reaches minScore when the positions
    run out is reported (the final flush) -/
theorem C13_flush_complete (ms bst : Int) (scores : List Int) :
    let st := scanFrom ms bst {} 0 scores
    ∀ r, st.cur = some r → ms ≤ r.score → r ∈ scanRanges ms bst scores :=
  Coma.Proofs.scan_flush_complete ms bst scores

end Coma.Props

namespace Coma.Props
open Coma Coma.Spec

/-- (g), completeness for the FIRST run: from the first positive score on, follow the running sum until the first break
    (sum ≤ 0, or sum ≤ running maximum − threshold); if the maximum reached before that break is at least `minScore`,
    that run — `firstRun`, an executable restatement of the harness oracle — is the first segment the factory reports; in
    particular the result is then not the single empty segment.  (Completeness for LATER runs is not claimed: a pending
    run below `minScore` is not reset at a break, segments_factory.py:63-66.) -/
theorem C13_first_run_complete (ms bst : Int) (scores : List Int) (hb : 0 ≤ bst) (hm : 0 < ms) (r : Rng)
    (h : Coma.Proofs.firstRun ms bst scores = some r) : (scanRanges ms bst scores).head? = some r :=
  Coma.Proofs.scanRanges_first_run ms bst scores hb hm r h

/-- non-vacuity: the default thresholds; the first run of a list that starts with two unpaired labels -/
example : Coma.Proofs.firstRun 1000 1200 [-250, -250, 1000, 900, -250, 800] = some ⟨2, 6, 2450⟩ := by decide

end Coma.Props
